package store_test

// F11 (property C03): both writeHeader functions rewrote the live ".info" header in place with
// os.WriteFile, which truncates the file before it writes. GC rewrites the header every time it
// unlinks the oldest file; a crash between the truncation and the write (or a torn write) leaves
// an empty or partial header, and the next open fails - the store cannot be opened any more.
// The test puts the header into the state such a crash leaves and opens the store.
//   cd /repo && echo '{"Replace":{"/repo/store/f11_test.go":"/verif/findings/f11_test.go"}}' > /tmp/ov.json && go test -overlay /tmp/ov.json -vet=off -count=1 -run TestF11 ./store/

import (
	"context"
	"os"
	"path/filepath"
	"testing"

	"github.com/ipld/go-storethehash/store"
	"github.com/multiformats/go-multihash"
)

func TestF11TornHeaderRewrite(t *testing.T) {
	for _, name := range []string{"index.info", "data.info"} {
		for _, keep := range []int{0, 10} {
			dir := t.TempDir()
			dataPath, indexPath := filepath.Join(dir, "data"), filepath.Join(dir, "index")
			s, err := store.OpenStore(context.Background(), store.MultihashPrimary, dataPath, indexPath, false, store.GCInterval(0))
			if err != nil {
				t.Fatal(err)
			}
			k, _ := multihash.Sum([]byte("key"), multihash.SHA2_256, -1)
			if err = s.Put(k, []byte("value")); err != nil {
				t.Fatal(err)
			}
			if err = s.Close(); err != nil {
				t.Fatal(err)
			}
			// the state an interrupted os.WriteFile(headerPath, ...) leaves: truncated, then `keep` bytes
			if err = os.Truncate(filepath.Join(dir, name), int64(keep)); err != nil {
				t.Fatal(err)
			}
			s, err = store.OpenStore(context.Background(), store.MultihashPrimary, dataPath, indexPath, false, store.GCInterval(0))
			if err != nil {
				t.Errorf("%s torn after %d bytes: the store cannot be opened any more: %v", name, keep, err)
				continue
			}
			s.Close()
		}
	}
}
