package store_test

// F2 (property C01): Store.Put(k2, empty value) is silently dropped when the index lookup for
// k2 lands on another key's entry (same bucket, shared stored prefix).
// Run: cd /repo && go test -overlay <(echo '{"Replace":{"/repo/store/f2_test.go":"/verif/findings/f2_test.go"}}') -vet=off -count=1 -run TestF2 ./store/

import (
	"context"
	"path/filepath"
	"testing"

	"github.com/ipld/go-storethehash/store"
	"github.com/multiformats/go-multihash"
)

func mhWithDigest(t *testing.T, d []byte) []byte {
	b, err := multihash.Encode(d, multihash.SHA2_256)
	if err != nil {
		t.Fatal(err)
	}
	return b
}

func TestF2EmptyValueSharedPrefix(t *testing.T) {
	dir := t.TempDir()
	s, err := store.OpenStore(context.Background(), store.MultihashPrimary, filepath.Join(dir, "data"), filepath.Join(dir, "index"), false, store.GCInterval(0))
	if err != nil {
		t.Fatal(err)
	}
	defer s.Close()
	d1 := make([]byte, 32)
	d2 := make([]byte, 32)
	for i := range d1 {
		d1[i] = byte(i)
		d2[i] = byte(i)
	}
	d2[31] = 0xff // same bucket bits, same first stored byte
	k1, k2 := mhWithDigest(t, d1), mhWithDigest(t, d2)
	if err = s.Put(k1, []byte("v1")); err != nil {
		t.Fatal(err)
	}
	if err = s.Put(k2, []byte{}); err != nil {
		t.Fatal(err)
	}
	_, found, err := s.Get(k2)
	if err != nil {
		t.Fatal(err)
	}
	if !found {
		t.Fatal("key put with an empty value is absent")
	}
}
