package store

// F4 (property C04): primaryGC.reapRecords relocated the last records of a low-use primary file
// through one shared scratch buffer, but MultihashPrimary.Put keeps the slices it is given until
// the next flush: relocating two records made the first one's pooled key/value alias the buffer
// that the second read overwrote, so after the flush a key returned another key's data.
// F5 (property C04): deleteRecords called file.Name() on a nil *os.File when the freelist named a
// location in a primary file that does not exist (for example one already removed by GC): panic.
//   cd /repo && echo '{"Replace":{"/repo/store/f4_f5_test.go":"/verif/findings/f4_f5_test.go"}}' > /tmp/ov.json && go test -overlay /tmp/ov.json -vet=off -count=1 -run 'TestF4|TestF5' ./store/

import (
	"bytes"
	"context"
	"fmt"
	"path/filepath"
	"testing"
	"time"

	mhprimary "github.com/ipld/go-storethehash/store/primary/multihash"
	"github.com/ipld/go-storethehash/store/types"
	"github.com/multiformats/go-multihash"
)

func TestF4RelocationKeepsValues(t *testing.T) {
	dir := t.TempDir()
	s, err := OpenStore(context.Background(), MultihashPrimary, filepath.Join(dir, "data"), filepath.Join(dir, "index"), false,
		GCInterval(time.Hour), PrimaryFileSize(100))
	if err != nil {
		t.Fatal(err)
	}
	defer s.Close()
	var keys [][]byte
	var vals [][]byte
	for i := 0; i < 5; i++ {
		k, _ := multihash.Sum([]byte(fmt.Sprintf("key-%d", i)), multihash.SHA2_256, -1)
		v := []byte(fmt.Sprintf("value-%d-%d-%d", i, i, i))
		keys = append(keys, k)
		vals = append(vals, v)
		if err = s.Put(k, v); err != nil {
			t.Fatal(err)
		}
	}
	if err = s.Flush(); err != nil {
		t.Fatal(err)
	}
	mp := s.Primary().(*mhprimary.MultihashPrimary)
	// low-use threshold 0: every non-current file is drained by relocating its last records
	if _, err = mp.GC(context.Background(), 0); err != nil {
		t.Fatal(err)
	}
	if err = s.Flush(); err != nil {
		t.Fatal(err)
	}
	for i, k := range keys {
		v, found, err := s.Get(k)
		if err != nil {
			t.Fatal(err)
		}
		if !found || !bytes.Equal(v, vals[i]) {
			t.Fatalf("after GC key %d: found=%v value=%q want %q", i, found, v, vals[i])
		}
	}
}

func TestF5FreelistEntryForMissingFile(t *testing.T) {
	dir := t.TempDir()
	s, err := OpenStore(context.Background(), MultihashPrimary, filepath.Join(dir, "data"), filepath.Join(dir, "index"), false,
		GCInterval(time.Hour), PrimaryFileSize(64))
	if err != nil {
		t.Fatal(err)
	}
	defer s.Close()
	k, _ := multihash.Sum([]byte("key"), multihash.SHA2_256, -1)
	if err = s.Put(k, []byte("value")); err != nil {
		t.Fatal(err)
	}
	if err = s.Flush(); err != nil {
		t.Fatal(err)
	}
	mp := s.Primary().(*mhprimary.MultihashPrimary)
	// a freed location in primary file 7, which does not exist
	if err = s.freelist.Put(types.Block{Offset: 64 * 7, Size: 10}); err != nil {
		t.Fatal(err)
	}
	if _, err = mp.GC(context.Background(), 101); err != nil {
		t.Logf("GC reported: %v", err)
	}
	v, found, err := s.Get(k)
	if err != nil || !found || !bytes.Equal(v, []byte("value")) {
		t.Fatalf("after GC: found=%v value=%q err=%v", found, v, err)
	}
}
