#!/bin/sh
# Builds the verifier from the vendored sources; offline.
set -e
cd "$(dirname "$0")/gsv"
export PATH=/opt/veriftools/go1.26.8/bin:$PATH
export GOFLAGS=-mod=vendor GOPROXY=off GOSUMDB=off GOTOOLCHAIN=local
mkdir -p ../bin
go build -o ../bin/gsv .
echo "gsv built"
