#!/bin/sh
# usage: tools/mutant_one.sh <mutants/x.diff>  -- one must-fail check (see mutants_run.sh)
cd /verif
m="$1"
prop=$(sed -n 's/^# property: //p' "$m"); exp=$(sed -n 's/^# expect: //p' "$m")
out=$(tools/mutant.sh "$m" "$prop" 2>&1)
if echo "$out" | grep -qF "$exp" && echo "$out" | grep -q "^VIOLATION"; then
  echo "CAUGHT  $m  ($exp)"
else
  echo "MISSED  $m  (expected $exp)"; echo "$out" | head -4 | cut -c1-200 | sed 's/^/        /'
fi
