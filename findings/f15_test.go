package store_test

// F15 (property C09; open): translateIndex replaces the old index by two separate steps,
// index.MoveFiles(indexPath, oldTmp) and index.MoveFiles(newIndexPath, indexDir). A crash
// between them leaves NO index at indexPath (the old one is in old_index*, the new one in
// new_index*). The next OpenStore finds no header, creates a fresh empty index and succeeds:
// the store opens successfully with fewer keys than before. The test reproduces the state after
// the first step with the real MoveFiles and then opens the store.
//   cd /repo && echo '{"Replace":{"/repo/store/f15_test.go":"/verif/findings/f15_test.go"}}' > /tmp/ov.json && go test -overlay /tmp/ov.json -vet=off -count=1 -run TestF15 ./store/

import (
	"context"
	"fmt"
	"os"
	"path/filepath"
	"testing"

	"github.com/ipld/go-storethehash/store"
	"github.com/ipld/go-storethehash/store/index"
	"github.com/multiformats/go-multihash"
)

func TestF15CrashBetweenIndexMoves(t *testing.T) {
	dir := t.TempDir()
	dataPath, indexPath := filepath.Join(dir, "data"), filepath.Join(dir, "index")
	s, err := store.OpenStore(context.Background(), store.MultihashPrimary, dataPath, indexPath, false, store.GCInterval(0), store.IndexBitSize(24))
	if err != nil {
		t.Fatal(err)
	}
	var keys [][]byte
	for i := 0; i < 5; i++ {
		k, _ := multihash.Sum([]byte(fmt.Sprintf("key-%d", i)), multihash.SHA2_256, -1)
		keys = append(keys, k)
		if err = s.Put(k, []byte("value")); err != nil {
			t.Fatal(err)
		}
	}
	if err = s.Close(); err != nil {
		t.Fatal(err)
	}
	// what translateIndex does first when the store is reopened with another bit size; the
	// process dies right after this step
	oldTmp, err := os.MkdirTemp(dir, "old_index")
	if err != nil {
		t.Fatal(err)
	}
	if err = index.MoveFiles(indexPath, oldTmp); err != nil {
		t.Fatal(err)
	}
	// restart
	s, err = store.OpenStore(context.Background(), store.MultihashPrimary, dataPath, indexPath, false, store.GCInterval(0), store.IndexBitSize(16))
	if err != nil {
		t.Logf("open refused (acceptable): %v", err)
		return
	}
	defer s.Close()
	for i, k := range keys {
		if _, found, err := s.Get(k); err != nil || !found {
			t.Fatalf("store opened successfully after the interrupted re-bucketing but key %d is gone (found=%v err=%v)", i, found, err)
		}
	}
}
