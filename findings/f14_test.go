package store_test

// F14 (properties C01, C08; open): the index stores the shortest distinguishing prefix of a key
// with a ONE-byte length (AddKeyPosition: size := byte(len(key))). Two keys of the same bucket
// whose index keys share 256 or more bytes need a stored prefix of at least 256 bytes; its length
// byte wraps, the record list is mis-framed and the second key cannot be found any more.
// Identity multihashes (code 0x00) carry their payload as the digest and can be that long.
//   cd /repo && echo '{"Replace":{"/repo/store/f14_test.go":"/verif/findings/f14_test.go"}}' > /tmp/ov.json && go test -overlay /tmp/ov.json -vet=off -count=1 -run TestF14 ./store/

import (
	"bytes"
	"context"
	"path/filepath"
	"testing"

	"github.com/ipld/go-storethehash/store"
	"github.com/multiformats/go-multihash"
)

func TestF14LongSharedPrefix(t *testing.T) {
	dir := t.TempDir()
	s, err := store.OpenStore(context.Background(), store.MultihashPrimary, filepath.Join(dir, "data"), filepath.Join(dir, "index"), false, store.GCInterval(0))
	if err != nil {
		t.Fatal(err)
	}
	defer s.Close()
	mk := func(last byte) []byte {
		payload := bytes.Repeat([]byte{0x41}, 300)
		payload[299] = last
		k, err := multihash.Encode(payload, multihash.IDENTITY)
		if err != nil {
			t.Fatal(err)
		}
		return k
	}
	k1, k2 := mk(1), mk(2)
	if err = s.Put(k1, []byte("one")); err != nil {
		t.Fatal(err)
	}
	if err = s.Put(k2, []byte("two")); err != nil {
		t.Fatal(err)
	}
	for i, kv := range []struct {
		k []byte
		v string
	}{{k1, "one"}, {k2, "two"}} {
		v, found, err := s.Get(kv.k)
		if err != nil || !found || string(v) != kv.v {
			t.Errorf("key %d: found=%v value=%q err=%v, want %q", i+1, found, v, err, kv.v)
		}
	}
}
