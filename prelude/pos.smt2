; Position encodings of the index log and the primary log as spec functions.
; ibpos: bucket position of a record whose data starts at local offset p (p = record start + 4) in index file f.
(define-fun ibpos ((f Int) (m Int) (p Int)) Int (+ (* f m) p))
(define-fun ifile ((x Int) (m Int)) Int (div (- x 4) m))
(define-fun iloc ((x Int) (m Int)) Int (- x (* (div (- x 4) m) m)))
; ppos: absolute primary position of a record starting at local offset p in primary file f.
(define-fun ppos ((f Int) (m Int) (p Int)) Int (+ (* m f) p))
(define-fun pfile ((x Int) (m Int)) Int (div x m))
(define-fun ploc ((x Int) (m Int)) Int (- x (* (div x m) m)))
; prefix sums of an int array: psum(a,o,k) = a[o] + ... + a[o+k-1]; never given as a quantified axiom,
; only instances of the defining equation psum.def are asserted (unfold).
(declare-fun psum ((Array Int Int) Int Int) Int)
(define-fun psum.def ((a (Array Int Int)) (o Int) (k Int)) Bool (= (psum a o k) (ite (<= k 0) 0 (+ (psum a o (- k 1)) (select a (+ o (- k 1)))))))
; roll(p, f, m): where the next record starts when the cursor is at offset p of file f and the
; file-size limit is m - the rule shared by the location prediction (Put) and the writer (flushBlock)
(define-fun rollp ((p Int) (f Int) (m Int)) Int (ite (>= p m) 0 p))
(define-fun rollf ((p Int) (f Int) (m Int)) Int (ite (>= p m) (mod (+ f 1) 4294967296) f))
