package main

import (
	"context"
	"strings"
)

func bgctx() context.Context { return context.Background() }

// lemmaObligations turns `lemma` declarations tagged with prop into closed
// SMT goals over the preludes (each lemma may use earlier lemmas as axioms).
func lemmaObligations(eng *Engine, prop string) []*Obligation {
	var out []*Obligation
	byName := map[string]*Lemma{}
	for _, l := range eng.specs.Lemmas {
		byName[l.Name] = l
	}
	for _, l := range eng.specs.Lemmas {
		if !hasProp(l.Props, prop) {
			continue
		}
		c := eng.newFnCtx(nil, nil)
		c.funcName = "lemma." + l.Name
		st := &State{cells: map[cellKey]Val{}, heap: map[string]string{}, ghost: map[string]Val{}}
		st.alloc = "0"
		env := &Env{c: c, st: st, vars: map[string]Val{}}
		ok := true
		for _, u := range l.Using {
			ul := byName[u]
			if ul == nil {
				ok = false
				continue
			}
			t, err := env.evalAssume(ul.E)
			if err != nil {
				ok = false
				continue
			}
			c.sc.assert(t)
		}
		// skolemise a top-level universal quantifier: the solvers do much better on constants
		goalExpr := l.E
		if goalExpr.Op == "forall" {
			ok2 := true
			for _, b := range goalExpr.Vars {
				var v Val
				switch {
				case b.Type == "int" || b.Type == "Int":
					v = mkInt(c.sc.declare("sk."+b.Name, "Int"), nil)
				case b.Type == "bool":
					v = mkBool(c.sc.declare("sk."+b.Name, "Bool"))
				case eng.sorts[b.Type] || strings.HasPrefix(b.Type, "("):
					v = mkOpaque(c.sc.declare("sk."+b.Name, b.Type), b.Type)
				default:
					ok2 = false
				}
				if ok2 {
					env.vars[b.Name] = v
				}
			}
			if ok2 {
				goalExpr = goalExpr.Args[0]
			} else {
				env.vars = map[string]Val{}
			}
		}
		goal, err := env.evalBool(goalExpr)
		ob := &Obligation{Name: "lemma." + l.Name, Kind: "lemma", Func: "lemma", Props: l.Props, Mark: c.sc.mark(), Cond: "true", Goal: goal, Pos: l.Pos, Text: l.Text, Script: c.sc}
		if err != nil || !ok {
			ob.Goal = "false"
			ob.Skipped = "contract-stale: lemma cannot be evaluated"
			if err != nil {
				ob.Skipped += ": " + err.Error()
			}
		}
		out = append(out, ob)
	}
	return out
}
