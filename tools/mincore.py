#!/usr/bin/env python3
"""mincore.py <query.smt2>: greedy deletion-based minimisation of the assertions needed for unsat."""
import subprocess, sys, re
src = open(sys.argv[1]).read().replace('(get-model)', '')
lines = src.split('\n')
# keep prelude (everything before first '(declare-const alloc!0' ) fixed
start = next(i for i, l in enumerate(lines) if l.startswith('(declare-const alloc!0'))
fixed, rest = lines[:start], lines[start:]
asserts = [i for i, l in enumerate(rest) if l.startswith('(assert ')]
def check(keep):
    body = [l for i, l in enumerate(rest) if not l.startswith('(assert ') or i in keep]
    open('/tmp/mc.smt2', 'w').write('\n'.join(fixed + body))
    out = subprocess.run(['z3-new', '-T:5', '/tmp/mc.smt2'], capture_output=True, text=True).stdout
    return out.startswith('unsat')
keep = set(asserts)
assert check(keep), "not unsat"
chunk = max(1, len(keep) // 2)
while chunk >= 1:
    changed = False
    ks = sorted(keep)
    for j in range(0, len(ks), chunk):
        trial = keep - set(ks[j:j + chunk])
        if check(trial):
            keep = trial; changed = True
    if not changed or chunk == 1:
        if chunk == 1 and not changed: break
        chunk = max(1, chunk // 2) if chunk > 1 else 1
        if chunk == 1 and not changed: pass
    else:
        chunk = max(1, chunk // 2)
for i in sorted(keep):
    print(rest[i][:600])
