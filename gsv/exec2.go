package main

// Instruction semantics.

import (
	"fmt"
	"go/token"
	"go/types"
	"sort"
	"strings"

	"golang.org/x/tools/go/ssa"
)

type blockCtx struct {
	fr    *Frame
	st    *State
	reach string
	dead  bool
}

func (c *FnCtx) newFrame(fn *ssa.Function, parent *Frame) *Frame {
	c.frameCtr++
	fr := &Frame{id: c.frameCtr, fn: fn, regs: map[ssa.Value]Val{}, params: map[string]Val{}, results: map[string]Val{}, parent: parent, freeVar: map[*ssa.FreeVar]Val{}, callOcc: map[string]int{}}
	if parent != nil {
		fr.depth = parent.depth + 1
	}
	fr.spec = c.eng.findSpec(fn)
	fr.loops = findLoops(fn)
	// call-site ordinals by source position (stable under block reordering)
	fr.occOf = map[*ssa.CallCommon]int{}
	type site struct {
		cc  *ssa.CallCommon
		pos token.Pos
		idx int
	}
	by := map[string][]site{}
	n := 0
	for _, b := range fn.Blocks {
		for _, in := range b.Instrs {
			var cc *ssa.CallCommon
			switch x := in.(type) {
			case *ssa.Call:
				cc = &x.Call
			case *ssa.Defer:
				cc = &x.Call
			case *ssa.Go:
				cc = &x.Call
			}
			if cc == nil {
				continue
			}
			name := calleeShort(c.eng, cc.StaticCallee(), calleeName(cc))
			by[name] = append(by[name], site{cc, in.Pos(), n})
			n++
		}
	}
	for _, ss := range by {
		sort.SliceStable(ss, func(i, j int) bool {
			if ss[i].pos != ss[j].pos {
				return ss[i].pos < ss[j].pos
			}
			return ss[i].idx < ss[j].idx
		})
		for i, s := range ss {
			fr.occOf[s.cc] = i
		}
	}
	for _, l := range fr.loops {
		if fr.spec != nil {
			l.spec = fr.spec.Loops[l.ord]
		}
	}
	return fr
}

func (c *FnCtx) regName(fr *Frame, v ssa.Value) string {
	return fmt.Sprintf("f%d.%s", fr.id, v.Name())
}

// setReg binds an SSA register, naming leaf terms for readability.
func (c *FnCtx) setReg(fr *Frame, v ssa.Value, val Val) {
	switch val.K {
	case KInt, KBool, KStr, KRef:
		if len(val.T) > 40 {
			sort := "Int"
			if val.K == KBool {
				sort = "Bool"
			}
			n := c.sc.declare(c.regName(fr, v)+fmt.Sprintf("!%d", c.sc.counter), sort)
			c.sc.counter++
			c.sc.assert(sEq(n, val.T))
			if m, ok := c.masks[val.T]; ok {
				c.masks[n] = m
			}
			if m, ok := c.pow2s[val.T]; ok {
				c.pow2s[n] = m
			}
			if b, ok := c.boxes[val.T]; ok {
				c.boxes[n] = b
			}
			val.T = n
		}
	}
	fr.regs[v] = val
}

func (c *FnCtx) operand(bc *blockCtx, v ssa.Value) Val {
	switch x := v.(type) {
	case *ssa.Const:
		return c.constVal(x)
	case *ssa.Function:
		return Val{K: KFunc, T: smtInt(int64(c.eng.strID("func:" + x.String()))), Ty: x.Type(), Fn: x}
	case *ssa.Global:
		// address of a package-level variable
		return Val{K: KLoc, Loc: &Loc{Kind: LHeap, Base: smtInt(int64(c.eng.strID("global:" + x.String()))), Ty: x.Type().(*types.Pointer).Elem()}, Ty: x.Type()}
	case *ssa.FreeVar:
		if val, ok := bc.fr.freeVar[x]; ok {
			return val
		}
		return poison("free variable " + x.Name())
	case *ssa.Builtin:
		return Val{K: KFunc, T: "0", Ty: x.Type()}
	}
	if val, ok := bc.fr.regs[v]; ok {
		return val
	}
	return poison("undefined register " + v.Name())
}

// ptrToLoc converts a pointer value into a location.
func (c *FnCtx) ptrToLoc(v Val) *Loc {
	if v.K == KLoc {
		return v.Loc
	}
	if v.K == KRef && v.Ty != nil {
		if p, ok := v.Ty.Underlying().(*types.Pointer); ok {
			el := p.Elem()
			if _, isStruct := el.Underlying().(*types.Struct); isStruct {
				return &Loc{Kind: LField, Base: v.T, Root: el, Ty: el}
			}
			if at, isArr := el.Underlying().(*types.Array); isArr {
				_ = at
				return &Loc{Kind: LHeap, Base: v.T, Ty: el}
			}
			return &Loc{Kind: LHeap, Base: v.T, Ty: el}
		}
	}
	return nil
}

func (c *FnCtx) runFunction(fr *Frame, st *State, reach string, args []Val) []exitInfo {
	fn := fr.fn
	if len(fn.Blocks) == 0 {
		c.unsupported("function without body: " + fn.String())
		return nil
	}
	for i, p := range fn.Params {
		if i < len(args) {
			fr.regs[p] = args[i]
			fr.params[p.Name()] = args[i]
		}
	}
	fr.entrySt = st.clone()
	var exits []exitInfo
	c.execRegion(fr, nil, fn.Blocks[0], st, reach, &exits, nil)
	return exits
}

// regionRun describes a (possibly partial) execution of a function's CFG.
type regionRun struct {
	fr       *Frame
	blocks   map[*ssa.BasicBlock]bool // nil: whole function
	ins      map[*ssa.BasicBlock][]edgeIn
	headerOf map[*ssa.BasicBlock]*loopInfo
	exits    *[]exitInfo
	skipHdr  *loopInfo // dry run of this loop: do not apply the loop rule at its own header
	backs    *[]edgeIn // dry run: states arriving at skipHdr's back edges
	hdrState map[*loopInfo]*State
}

func (c *FnCtx) execRegion(fr *Frame, blocks map[*ssa.BasicBlock]bool, start *ssa.BasicBlock, st *State, reach string, exits *[]exitInfo, dryLoop *loopInfo) *[]edgeIn {
	rr := &regionRun{fr: fr, blocks: blocks, ins: map[*ssa.BasicBlock][]edgeIn{}, headerOf: map[*ssa.BasicBlock]*loopInfo{}, exits: exits, skipHdr: dryLoop, hdrState: map[*loopInfo]*State{}}
	if dryLoop != nil {
		rr.backs = &[]edgeIn{}
	}
	for _, l := range fr.loops {
		rr.headerOf[l.header] = l
	}
	rr.ins[start] = []edgeIn{{st, reach}}
	for _, b := range topoOrder(fr.fn) {
		if blocks != nil && !blocks[b] {
			continue
		}
		in := rr.ins[b]
		if len(in) == 0 {
			continue
		}
		S, r := c.merge(in)
		S = S.clone()
		bc := &blockCtx{fr: fr, st: S, reach: r}
		inLoop := false
		for _, li := range fr.loops {
			if li.blocks[b] && li.header != b {
				inLoop = true
			}
		}
		// thorough tier: every block; quick tier: the blocks of loop bodies (a contradiction inside a
		// loop body is invisible to the per-return canaries, because the loop is cut at its head)
		if _, isPanic := b.Instrs[len(b.Instrs)-1].(*ssa.Panic); (c.blockCanaries || inLoop) && c.dry == 0 && fr == c.top && len(b.Preds) > 0 && !isPanic {
			// cover check: the block must be reachable under the contracts in force
			o := c.oblige("canary", fmt.Sprintf("block%d", b.Index), r, "false", c.eng.posOf(firstPos(b)), "vacuity canary: basic block reachable", nil)
			o.Canary = true
			o.BlockCanary = true
			c.curBlockCanary = o
		} else if fr == c.top && c.dry == 0 {
			c.curBlockCanary = nil
		}
		if li := rr.headerOf[b]; li != nil && li != dryLoop {
			c.enterLoop(bc, li, rr)
		}
		for _, instr := range b.Instrs {
			if bc.dead {
				break
			}
			c.execInstr(bc, instr, rr)
		}
	}
	return rr.backs
}

func (c *FnCtx) addEdge(bc *blockCtx, from, to *ssa.BasicBlock, cond string, rr *regionRun) {
	full := sAnd(bc.reach, cond)
	if full == "false" {
		return
	}
	if isBackEdge(from, to) {
		li := rr.headerOf[to]
		if li == nil {
			return
		}
		if li == rr.skipHdr {
			bs := bc.st.clone()
			// ghost updates at the latch count as modifications of the loop body
			c.runGhostAtState(bc.fr, bs, Anchor{Kind: "latch", Loop: li.ord})
			*rr.backs = append(*rr.backs, edgeIn{bs, full})
			return
		}
		c.backEdge(bc, li, full, rr)
		return
	}
	if rr.blocks != nil && !rr.blocks[to] {
		return // edge leaving the dry-run region
	}
	rr.ins[to] = append(rr.ins[to], edgeIn{bc.st.clone(), full})
}

func (c *FnCtx) execInstr(bc *blockCtx, instr ssa.Instruction, rr *regionRun) {
	fr := bc.fr
	st := bc.st
	switch x := instr.(type) {
	case *ssa.Alloc:
		t := x.Type().(*types.Pointer).Elem()
		if !x.Heap {
			st.cells[cellKey{fr.id, x}] = zeroVal(t)
			fr.regs[x] = Val{K: KLoc, Loc: &Loc{Kind: LCell, Cell: x, Frame: fr.id, Ty: t}, Ty: x.Type()}
			return
		}
		ref := c.allocRef(st)
		v := mkRef(ref, x.Type())
		fr.regs[x] = v
		// zero-initialise
		if l := c.ptrToLoc(v); l != nil {
			if at, ok := t.Underlying().(*types.Array); ok {
				// arrays live in the element heap so that they can be sliced
				for _, lf := range leavesOf(at.Elem()) {
					name := elemArrayName(at.Elem(), lf.path)
					z := "0"
					if lf.sort == "Bool" {
						z = "false"
					}
					c.heapStore(st, name, arr2Sort(lf.sort), ref, fmt.Sprintf("((as const (Array Int %s)) %s)", lf.sort, z))
				}
				return
			}
			c.writeLoc(st, l, zeroVal(t))
			// typestate of sync.Once / mutex fields of a new object: not done, not held
			if _, isStruct := t.Underlying().(*types.Struct); isStruct {
				c.initSyncState(st, t, t, nil, ref)
			}
		}
	case *ssa.Store:
		addr := c.operand(bc, x.Addr)
		val := c.operand(bc, x.Val)
		l := c.ptrToLoc(addr)
		if l == nil {
			c.unsupported(fmt.Sprintf("store through unmodelled pointer at %s", c.eng.posOf(x.Pos())))
			return
		}
		c.checkGuard(bc, l, true, x.Pos())
		c.writeLoc(st, l, c.coerce(val, l.Ty))
	case *ssa.UnOp:
		c.execUnOp(bc, x)
	case *ssa.BinOp:
		c.execBinOp(bc, x)
	case *ssa.FieldAddr:
		base := c.operand(bc, x.X)
		l := c.ptrToLoc(base)
		if l == nil {
			fr.regs[x] = poison("field of unmodelled pointer")
			return
		}
		if base.K == KRef && c.nopanic {
			c.safety("nil", bc.reach, "(not (= "+base.T+" 0))", x.Pos())
		}
		nl := *l
		nl.Path = append(append([]int(nil), l.Path...), x.Field)
		_, nl.Ty = pathString(locRoot(&nl), nl.Path)
		if nl.Kind == LCell {
			nl.Ty = x.Type().(*types.Pointer).Elem()
		}
		if nl.Kind == LHeap {
			// pointer to a heap cell holding a struct: address by root type
			nl.Kind = LField
			nl.Root = l.Ty
			nl.Path = []int{x.Field}
			_, nl.Ty = pathString(nl.Root, nl.Path)
		}
		fr.regs[x] = Val{K: KLoc, Loc: &nl, Ty: x.Type()}
	case *ssa.Field:
		v := c.operand(bc, x.X)
		if v.K == KStruct && x.Field < len(v.Fs) {
			fr.regs[x] = v.Fs[x.Field]
		} else {
			fr.regs[x] = poison("field of non-struct value")
		}
	case *ssa.IndexAddr:
		c.execIndexAddr(bc, x)
	case *ssa.Index:
		v := c.operand(bc, x.X)
		idx := c.operand(bc, x.Index)
		if v.K == KArray {
			// constant index only
			if k, ok := x.Index.(*ssa.Const); ok {
				i := int(k.Int64())
				if i >= 0 && i < len(v.Fs) {
					fr.regs[x] = v.Fs[i]
					return
				}
			}
			// symbolic index into small array: ite chain
			c.safety("index", bc.reach, fmt.Sprintf("(and (<= 0 %s) (< %s %d))", idx.T, idx.T, len(v.Fs)), x.Pos())
			res := v.Fs[len(v.Fs)-1]
			for i := len(v.Fs) - 2; i >= 0; i-- {
				res = c.iteVal(fmt.Sprintf("(= %s %d)", idx.T, i), v.Fs[i], res)
			}
			fr.regs[x] = res
			return
		}
		fr.regs[x] = poison("index of " + x.X.Type().String())
	case *ssa.Slice:
		c.execSlice(bc, x)
	case *ssa.MakeSlice:
		ln := c.operand(bc, x.Len)
		cp := c.operand(bc, x.Cap)
		c.safety("makeslice", bc.reach, fmt.Sprintf("(and (<= 0 %s) (<= %s %s))", ln.T, ln.T, cp.T), x.Pos())
		ref := c.allocRef(st)
		el := x.Type().Underlying().(*types.Slice).Elem()
		for _, lf := range leavesOf(el) {
			name := elemArrayName(el, lf.path)
			z := "0"
			if lf.sort == "Bool" {
				z = "false"
			}
			c.heapStore(st, name, arr2Sort(lf.sort), ref, fmt.Sprintf("((as const (Array Int %s)) %s)", lf.sort, z))
		}
		it := types.Typ[types.Int]
		fr.regs[x] = Val{K: KSlice, Ty: x.Type(), Fs: []Val{mkInt(ref, it), mkInt("0", it), mkInt(ln.T, it), mkInt(cp.T, it)}}
	case *ssa.MakeMap:
		ref := c.allocRef(st)
		mt := x.Type().Underlying().(*types.Map)
		c.mapInit(st, mt, ref)
		fr.regs[x] = mkRef(ref, x.Type())
	case *ssa.MakeChan:
		ref := c.allocRef(st)
		c.heapStore(st, "CH:closed", arrSort("Bool"), ref, "false")
		fr.regs[x] = mkRef(ref, x.Type())
	case *ssa.MakeClosure:
		fn := x.Fn.(*ssa.Function)
		v := Val{K: KFunc, T: c.allocRef(st), Ty: x.Type(), Fn: fn}
		for _, b := range x.Bindings {
			v.Binds = append(v.Binds, c.operand(bc, b))
		}
		fr.regs[x] = v
	case *ssa.MakeInterface:
		c.execMakeInterface(bc, x)
	case *ssa.ChangeInterface:
		v := c.operand(bc, x.X)
		v.Ty = x.Type()
		fr.regs[x] = v
	case *ssa.ChangeType:
		v := c.operand(bc, x.X)
		fr.regs[x] = c.retype(v, x.Type())
	case *ssa.Convert:
		c.execConvert(bc, x)
	case *ssa.TypeAssert:
		c.execTypeAssert(bc, x)
	case *ssa.Extract:
		t := c.operand(bc, x.Tuple)
		if t.K == KTuple && x.Index < len(t.Fs) {
			fr.regs[x] = t.Fs[x.Index]
		} else {
			fr.regs[x] = poison("extract from non-tuple")
		}
	case *ssa.Lookup:
		c.execLookup(bc, x)
	case *ssa.MapUpdate:
		m := c.operand(bc, x.Map)
		k := c.operand(bc, x.Key)
		v := c.operand(bc, x.Value)
		c.safety("nilmap", bc.reach, "(not (= "+m.T+" 0))", x.Pos())
		c.mapStore(st, x.Map.Type().Underlying().(*types.Map), m.T, k, v)
	case *ssa.Range:
		m := c.operand(bc, x.X)
		if _, ok := x.X.Type().Underlying().(*types.Map); !ok {
			fr.regs[x] = poison("range over non-map")
			return
		}
		// iterator: ghost set of visited keys
		vis := c.sc.fresh("range.visited", arrSort("Bool"))
		c.sc.assert(sEq(vis, "((as const (Array Int Bool)) false)"))
		it := Val{K: KTuple, Fs: []Val{m, mkOpaque(vis, arrSort("Bool"))}, Ty: x.Type()}
		// the visited set lives in a ghost variable so loops can havoc it
		st.ghost["$range."+x.Name()] = mkOpaque(vis, arrSort("Bool"))
		fr.regs[x] = it
	case *ssa.Next:
		c.execNext(bc, x)
	case *ssa.Call:
		res := c.execCall(bc, &x.Call, x, x.Pos())
		if x.Type() != nil {
			if tt, ok := x.Type().(*types.Tuple); ok && tt.Len() == 0 {
				return
			}
		}
		c.setReg(fr, x, res)
	case *ssa.Defer:
		d := deferEntry{instr: x, frame: fr, active: "true"}
		d.fnVal = c.operand(bc, x.Call.Value)
		for _, a := range x.Call.Args {
			d.args = append(d.args, c.operand(bc, a))
		}
		// (a defer inside a loop: the registrations of earlier iterations are represented by a
		// `wide` entry added at the loop head, see enterLoop)
		st.defers = append(st.defers, d)
	case *ssa.RunDefers:
		c.runDefers(bc)
	case *ssa.Go:
		c.note("go statement: spawned goroutine not interleaved (" + c.eng.posOf(x.Pos()) + ")")
		c.ghostEvent(bc, "spawn:"+calleeName(&x.Call))
	case *ssa.Send:
		c.note("channel send abstracted")
	case *ssa.Select:
		c.execSelect(bc, x)
	case *ssa.Panic:
		c.safety("panic", bc.reach, "false", x.Pos())
		bc.dead = true
	case *ssa.Jump:
		c.addEdge(bc, x.Block(), x.Block().Succs[0], "true", rr)
	case *ssa.If:
		cond := c.operand(bc, x.Cond)
		if cond.K != KBool {
			c.unsupported("branch on unmodelled condition at " + c.eng.posOf(x.Pos()))
			cond = mkBool(c.sc.fresh("havoc.cond", "Bool"))
		}
		c.addEdge(bc, x.Block(), x.Block().Succs[0], cond.T, rr)
		c.addEdge(bc, x.Block(), x.Block().Succs[1], sNot(cond.T), rr)
	case *ssa.Return:
		var rs []Val
		for _, r := range x.Results {
			rs = append(rs, c.operand(bc, r))
		}
		if rr.exits != nil {
			*rr.exits = append(*rr.exits, exitInfo{ret: x, st: bc.st, cond: bc.reach, results: rs})
		}
	case *ssa.DebugRef:
	case *ssa.Phi:
		c.unsupported("phi in naive form")
	default:
		c.unsupported(fmt.Sprintf("instruction %T at %s", instr, c.eng.posOf(instr.Pos())))
		if v, ok := instr.(ssa.Value); ok {
			fr.regs[v] = poison(fmt.Sprintf("%T", instr))
		}
	}
}

func locRoot(l *Loc) types.Type {
	switch l.Kind {
	case LField, LElem:
		return l.Root
	}
	return l.Ty
}

func calleeName(cc *ssa.CallCommon) string {
	if cc.IsInvoke() {
		return "(" + cc.Value.Type().String() + ")." + cc.Method.Name()
	}
	if f := cc.StaticCallee(); f != nil {
		return f.String()
	}
	if b, ok := cc.Value.(*ssa.Builtin); ok {
		return b.Name()
	}
	return "dynamic:" + cc.Value.Name()
}

func (c *FnCtx) ghostEvent(bc *blockCtx, ev string) {
	// events are counted in a ghost map name -> count
	key := "$ev." + ev
	old, ok := bc.st.ghost[key]
	if !ok {
		old = mkInt("0", nil)
	}
	bc.st.ghost[key] = mkInt("(+ "+old.T+" 1)", nil)
}

func (c *FnCtx) iteVal(cond string, a, b Val) Val {
	fa, fb := flatten(a), flatten(b)
	if len(fa) != len(fb) {
		return poison("ite of different shapes")
	}
	out := make([]string, len(fa))
	for i := range fa {
		out[i] = sIte(cond, fa[i], fb[i])
	}
	r, _ := rebuild(a, out)
	return r
}

// retype changes the static Go type attached to a value (named <-> underlying).
func (c *FnCtx) retype(v Val, t types.Type) Val {
	v.Ty = t
	return v
}

// coerce adapts a value to the type of the location it is stored into
// (only the attached Go types change).
func (c *FnCtx) coerce(v Val, t types.Type) Val {
	if t == nil {
		return v
	}
	if v.K == KRef && kindOf(t) == KSlice {
		// nil constant stored into a slice
		return zeroVal(t)
	}
	if v.K == KRef && kindOf(t) == KIface {
		return zeroVal(t)
	}
	if v.K == KRef && kindOf(t) == KFunc {
		return Val{K: KFunc, T: v.T, Ty: t}
	}
	v.Ty = t
	return v
}

func (c *FnCtx) execUnOp(bc *blockCtx, x *ssa.UnOp) {
	fr := bc.fr
	v := c.operand(bc, x.X)
	switch x.Op {
	case token.MUL: // load
		l := c.ptrToLoc(v)
		if l == nil {
			fr.regs[x] = poison("load through unmodelled pointer")
			return
		}
		if g, ok := x.X.(*ssa.Global); ok {
			fr.regs[x] = c.globalValue(bc, g)
			return
		}
		c.checkGuard(bc, l, false, x.Pos())
		val := c.readLoc(bc.st, l)
		if val.K != KPoison && val.K != KLoc && val.K != KFunc {
			val.Ty = x.Type()
		}
		if val.K == KFunc {
			if l.Kind == LField {
				p, _ := pathString(l.Root, l.Path)
				val.Sort = typeKey(l.Root) + p // origin field, used to find a contract
			}
		}
		fr.regs[x] = val
	case token.NOT:
		fr.regs[x] = mkBool(sNot(v.T))
	case token.SUB:
		if ii, ok := intInfoOf(x.Type()); ok && ii.float {
			fr.regs[x] = mkInt(c.sc.fresh("float", "Int"), x.Type())
			return
		}
		c.setReg(fr, x, mkInt(wrapTo("(- "+v.T+")", x.Type()), x.Type()))
	case token.XOR:
		// bitwise complement: -x-1 for signed, max-x for unsigned
		ii, _ := intInfoOf(x.Type())
		if ii.signed {
			c.setReg(fr, x, mkInt("(- (- "+v.T+") 1)", x.Type()))
		} else {
			c.setReg(fr, x, mkInt("(- "+ii.max()+" "+v.T+")", x.Type()))
		}
	case token.ARROW:
		// channel receive
		c.note("channel receive: value havoc, ghost waited(ch) set")
		// a receive from a nil channel never returns
		c.sc.assert(sImp(bc.reach, "(not (= "+v.T+" 0))"))
		c.heapStore(bc.st, "CH:waited", arrSort("Bool"), v.T, "true")
		var res Val
		if x.CommaOk {
			res = c.freshVal(bc.st, x.Type(), "recv")
		} else {
			res = c.freshVal(bc.st, x.Type(), "recv")
		}
		fr.regs[x] = res
	default:
		fr.regs[x] = poison("unop " + x.Op.String())
	}
}

// globalValue models reads of package-level variables: error sentinels are
// distinct constants; loggers are opaque; everything else is unsupported.
func (c *FnCtx) globalValue(bc *blockCtx, g *ssa.Global) Val {
	t := g.Type().(*types.Pointer).Elem()
	id := c.eng.strID("global:" + g.String())
	switch kindOf(t) {
	case KIface:
		// sentinel (e.g. io.EOF): tag = a type id reserved for the global, payload = its id
		tag := c.eng.typeID(types.NewPointer(t)) // not a real dynamic type; distinct per static type
		_ = tag
		return Val{K: KIface, Ty: t, Fs: []Val{mkInt(smtInt(int64(1000000+id)), nil), mkInt(smtInt(int64(id)), nil)}}
	case KRef:
		return mkRef(smtInt(int64(-id)), t) // distinct from every allocated object (negative)
	}
	c.note("read of package-level variable " + g.String() + " treated as an unknown value")
	return c.freshVal(bc.st, t, "global."+g.Name())
}

func (c *FnCtx) execBinOp(bc *blockCtx, x *ssa.BinOp) {
	fr := bc.fr
	a := c.operand(bc, x.X)
	b := c.operand(bc, x.Y)
	if a.K == KPoison || b.K == KPoison {
		fr.regs[x] = poison("operand: " + a.Why + b.Why)
		return
	}
	switch x.Op {
	case token.EQL, token.NEQ:
		eq := c.valEq(a, b)
		if x.Op == token.NEQ {
			eq = sNot(eq)
		}
		c.setReg(fr, x, mkBool(eq))
		return
	case token.LSS, token.LEQ, token.GTR, token.GEQ:
		if a.K == KStr {
			fr.regs[x] = mkBool(c.sc.fresh("strcmp", "Bool"))
			return
		}
		if ii, ok := intInfoOf(x.X.Type()); ok && ii.float {
			op := map[token.Token]string{token.LSS: "flt.lt", token.LEQ: "flt.le", token.GTR: "flt.lt", token.GEQ: "flt.le"}[x.Op]
			l, r := a.T, b.T
			if x.Op == token.GTR || x.Op == token.GEQ {
				l, r = r, l
			}
			c.setReg(fr, x, mkBool("("+op+" "+l+" "+r+")"))
			return
		}
		op := map[token.Token]string{token.LSS: "<", token.LEQ: "<=", token.GTR: ">", token.GEQ: ">="}[x.Op]
		c.setReg(fr, x, mkBool("("+op+" "+a.T+" "+b.T+")"))
		return
	}
	if a.K == KBool { // && || are lowered to control flow; & | on bools are rare
		switch x.Op {
		case token.AND:
			c.setReg(fr, x, mkBool(sAnd(a.T, b.T)))
		case token.OR:
			c.setReg(fr, x, mkBool(sOr(a.T, b.T)))
		default:
			fr.regs[x] = poison("bool binop")
		}
		return
	}
	if a.K == KStr {
		if x.Op == token.ADD {
			c.setReg(fr, x, Val{K: KStr, T: "(gstr.cat " + a.T + " " + b.T + ")", Ty: x.Type()})
			return
		}
		fr.regs[x] = poison("string binop")
		return
	}
	t := x.Type()
	ii, ok := intInfoOf(t)
	if !ok {
		fr.regs[x] = poison("binop on " + t.String())
		return
	}
	if ii.float {
		c.note("floating point arithmetic is uninterpreted")
		op := map[token.Token]string{token.ADD: "flt.add", token.SUB: "flt.sub", token.MUL: "flt.mul", token.QUO: "flt.div"}[x.Op]
		if op == "" {
			fr.regs[x] = poison("float op")
			return
		}
		c.setReg(fr, x, mkInt("("+op+" "+a.T+" "+b.T+")", t))
		return
	}
	var res string
	switch x.Op {
	case token.ADD:
		res = wrapAddSub("(+ "+a.T+" "+b.T+")", t)
	case token.SUB:
		res = wrapAddSub("(- "+a.T+" "+b.T+")", t)
		if s, ok := c.pow2s[a.T]; ok && b.T == "1" {
			defer func() { c.masks[fr.regs[x].T] = s }()
		}
	case token.MUL:
		res = wrapTo("(* "+a.T+" "+b.T+")", t)
	case token.QUO:
		c.safety("div0", bc.reach, "(not (= "+b.T+" 0))", x.Pos())
		if ii.signed {
			res = wrapTo("(tdiv "+a.T+" "+b.T+")", t)
		} else {
			res = "(div " + a.T + " " + b.T + ")"
		}
	case token.REM:
		c.safety("div0", bc.reach, "(not (= "+b.T+" 0))", x.Pos())
		if ii.signed {
			res = "(tmod " + a.T + " " + b.T + ")"
		} else {
			res = "(mod " + a.T + " " + b.T + ")"
		}
	case token.SHL:
		if k, ok := constInt(x.Y); ok {
			res = wrapTo("(* "+a.T+" "+pow2(int(k))+")", t)
		} else {
			// x << s  with symbolic s: x * pow2(s)
			sh := "(pow2 " + b.T + ")"
			if b.T == "" {
				fr.regs[x] = poison("shift")
				return
			}
			res = wrapTo("(* "+a.T+" "+sh+")", t)
			if a.T == "1" {
				defer func() { c.pow2s[fr.regs[x].T] = b.T }()
			}
		}
	case token.SHR:
		if k, ok := constInt(x.Y); ok && !ii.signed {
			res = "(div " + a.T + " " + pow2(int(k)) + ")"
		} else if ok {
			res = "(div " + a.T + " " + pow2(int(k)) + ")" // floor division = arithmetic shift
		} else {
			res = "(div " + a.T + " (pow2 " + b.T + "))"
		}
	case token.AND, token.OR, token.XOR, token.AND_NOT:
		r, ok := c.bitop(x.Op, a, b, x.X, x.Y, ii)
		if !ok {
			c.unsupported("bit operation with non-constant operands at " + c.eng.posOf(x.Pos()))
			fr.regs[x] = poison("bitop")
			return
		}
		res = r
	default:
		fr.regs[x] = poison("binop " + x.Op.String())
		return
	}
	c.setReg(fr, x, mkInt(res, t))
}

func constInt(v ssa.Value) (int64, bool) {
	if k, ok := v.(*ssa.Const); ok && k.Value != nil {
		if kindOf(k.Type()) == KInt {
			if ii, ok := intInfoOf(k.Type()); ok && !ii.float {
				if !ii.signed {
					return int64(k.Uint64()), true
				}
				return k.Int64(), true
			}
		}
	}
	return 0, false
}

func log2exact(n int64) (int, bool) {
	if n <= 0 {
		return 0, false
	}
	k := 0
	for n > 1 {
		if n&1 != 0 {
			return 0, false
		}
		n >>= 1
		k++
	}
	return k, true
}

// bitop encodes the bit operations whose shape occurs in the repository:
// one operand a power of two, or a mask 2^k-1 (constant or symbolic).
func (c *FnCtx) bitop(op token.Token, a, b Val, xa, xb ssa.Value, ii intInfo) (string, bool) {
	// normalise: constant / mask on the right
	kb, okb := constInt(xb)
	ka, oka := constInt(xa)
	if !okb && oka && op != token.AND_NOT {
		a, b = b, a
		kb, okb = ka, true
		xa, xb = xb, xa
	}
	if okb {
		if k, ok := log2exact(kb); ok {
			p := pow2(k)
			bit := fmt.Sprintf("(mod (div %s %s) 2)", a.T, p)
			switch op {
			case token.AND:
				return fmt.Sprintf("(* %s %s)", p, bit), true
			case token.OR:
				return fmt.Sprintf("(+ %s (* %s (- 1 %s)))", a.T, p, bit), true
			case token.XOR:
				return fmt.Sprintf("(ite (= %s 1) (- %s %s) (+ %s %s))", bit, a.T, p, a.T, p), true
			case token.AND_NOT:
				return fmt.Sprintf("(- %s (* %s %s))", a.T, p, bit), true
			}
		}
		if k, ok := log2exact(kb + 1); ok && op == token.AND {
			return fmt.Sprintf("(mod %s %s)", a.T, pow2(k)), true
		}
		if kb == 0 {
			switch op {
			case token.AND:
				return "0", true
			case token.OR, token.XOR, token.AND_NOT:
				return a.T, true
			}
		}
	}
	if op == token.AND {
		if s, ok := c.masks[b.T]; ok {
			return fmt.Sprintf("(mod %s (pow2 %s))", a.T, s), true
		}
		if s, ok := c.masks[a.T]; ok {
			return fmt.Sprintf("(mod %s (pow2 %s))", b.T, s), true
		}
	}
	return "", false
}

// valEq builds the equality of two values of the same Go type.
func (c *FnCtx) valEq(a, b Val) string {
	// nil comparisons
	if a.K == KRef && b.K != KRef {
		a, b = b, a
	}
	switch a.K {
	case KSlice:
		if b.K == KRef || (b.K == KSlice && b.Fs[0].T == "0") { // == nil
			return "(= " + a.Fs[0].T + " 0)"
		}
		if b.K == KSlice && a.Fs[0].T == "0" {
			return "(= " + b.Fs[0].T + " 0)"
		}
	case KIface:
		if b.K == KRef {
			return "(= " + a.Fs[0].T + " 0)"
		}
		// comparison with the nil interface: the tag decides
		if b.K == KIface && b.Fs[0].T == "0" {
			return "(= " + a.Fs[0].T + " 0)"
		}
		if b.K == KIface && a.Fs[0].T == "0" {
			return "(= " + b.Fs[0].T + " 0)"
		}
	case KFunc:
		if b.K == KRef {
			return "(= " + a.T + " 0)"
		}
	case KLoc:
		if b.K == KLoc && a.Loc.String() == b.Loc.String() {
			return "true"
		}
		if b.K == KRef && b.T == "0" {
			return "false"
		}
		return c.sc.fresh("loccmp", "Bool")
	}
	fa, fb := flatten(a), flatten(b)
	if len(fa) != len(fb) {
		return c.sc.fresh("cmp", "Bool")
	}
	var eqs []string
	for i := range fa {
		eqs = append(eqs, sEq(fa[i], fb[i]))
	}
	return sAnd(eqs...)
}

func (c *FnCtx) execIndexAddr(bc *blockCtx, x *ssa.IndexAddr) {
	fr := bc.fr
	base := c.operand(bc, x.X)
	idx := c.operand(bc, x.Index)
	switch bt := x.X.Type().Underlying().(type) {
	case *types.Slice:
		if base.K != KSlice {
			fr.regs[x] = poison("index of unmodelled slice")
			return
		}
		c.safety("index", bc.reach, fmt.Sprintf("(and (<= 0 %s) (< %s %s))", idx.T, idx.T, base.Fs[2].T), x.Pos())
		fr.regs[x] = Val{K: KLoc, Ty: x.Type(), Loc: &Loc{Kind: LElem, Base: base.Fs[0].T, Root: bt.Elem(), Idx: "(idx " + base.Fs[1].T + " " + idx.T + ")", Ty: bt.Elem()}}
	case *types.Pointer: // pointer to array
		at := bt.Elem().Underlying().(*types.Array)
		c.safety("index", bc.reach, fmt.Sprintf("(and (<= 0 %s) (< %s %d))", idx.T, idx.T, at.Len()), x.Pos())
		if base.K == KRef {
			fr.regs[x] = Val{K: KLoc, Ty: x.Type(), Loc: &Loc{Kind: LElem, Base: base.T, Root: at.Elem(), Idx: idx.T, Ty: at.Elem()}}
			return
		}
		if base.K == KLoc {
			if k, ok := constInt(x.Index); ok {
				nl := *base.Loc
				nl.Path = append(append([]int(nil), base.Loc.Path...), int(k))
				nl.Ty = at.Elem()
				fr.regs[x] = Val{K: KLoc, Loc: &nl, Ty: x.Type()}
				return
			}
		}
		fr.regs[x] = poison("symbolic index into local array")
	default:
		fr.regs[x] = poison("indexaddr of " + x.X.Type().String())
	}
}

func (c *FnCtx) execSlice(bc *blockCtx, x *ssa.Slice) {
	fr := bc.fr
	base := c.operand(bc, x.X)
	it := types.Typ[types.Int]
	var lo, hi, mx string
	if x.Low != nil {
		lo = c.operand(bc, x.Low).T
	}
	if x.High != nil {
		hi = c.operand(bc, x.High).T
	}
	if x.Max != nil {
		mx = c.operand(bc, x.Max).T
	}
	switch bt := x.X.Type().Underlying().(type) {
	case *types.Slice:
		if base.K != KSlice {
			fr.regs[x] = poison("slice of unmodelled slice")
			return
		}
		arr, off, ln, cp := base.Fs[0].T, base.Fs[1].T, base.Fs[2].T, base.Fs[3].T
		if lo == "" {
			lo = "0"
		}
		if hi == "" {
			hi = ln
		}
		if mx == "" {
			mx = cp
		}
		c.safety("slice", bc.reach, fmt.Sprintf("(and (<= 0 %s) (<= %s %s) (<= %s %s) (<= %s %s))", lo, lo, hi, hi, mx, mx, cp), x.Pos())
		c.setSliceReg(fr, x, Val{K: KSlice, Ty: x.Type(), Fs: []Val{mkInt(arr, it), mkInt("(+ "+off+" "+lo+")", it), mkInt("(- "+hi+" "+lo+")", it), mkInt("(- "+mx+" "+lo+")", it)}})
	case *types.Pointer: // *[N]T
		at := bt.Elem().Underlying().(*types.Array)
		n := fmt.Sprint(at.Len())
		if lo == "" {
			lo = "0"
		}
		if hi == "" {
			hi = n
		}
		if mx == "" {
			mx = n
		}
		if base.K != KRef {
			fr.regs[x] = poison("slice of local array")
			return
		}
		c.safety("slice", bc.reach, fmt.Sprintf("(and (<= 0 %s) (<= %s %s) (<= %s %s) (<= %s %s))", lo, lo, hi, hi, mx, mx, n), x.Pos())
		c.setSliceReg(fr, x, Val{K: KSlice, Ty: x.Type(), Fs: []Val{mkInt(base.T, it), mkInt(lo, it), mkInt("(- "+hi+" "+lo+")", it), mkInt("(- "+mx+" "+lo+")", it)}})
	default:
		fr.regs[x] = poison("slice of " + x.X.Type().String())
	}
}

func (c *FnCtx) setSliceReg(fr *Frame, x ssa.Value, v Val) {
	for i := range v.Fs {
		if len(v.Fs[i].T) > 40 {
			n := c.sc.fresh(c.regName(fr, x)+[]string{".arr", ".off", ".len", ".cap"}[i], "Int")
			c.sc.assert(sEq(n, v.Fs[i].T))
			v.Fs[i].T = n
		}
	}
	fr.regs[x] = v
}

func (c *FnCtx) execConvert(bc *blockCtx, x *ssa.Convert) {
	fr := bc.fr
	v := c.operand(bc, x.X)
	from, to := x.X.Type(), x.Type()
	fi, okf := intInfoOf(from)
	ti, okt := intInfoOf(to)
	if okf && okt && v.K == KInt {
		if fi.float || ti.float {
			if fi.float && ti.float {
				fr.regs[x] = mkInt(v.T, to)
				return
			}
			c.note("int/float conversion is uninterpreted")
			if ti.float {
				fr.regs[x] = mkInt("(flt.of "+v.T+")", to)
			} else {
				fr.regs[x] = c.freshVal(bc.st, to, "fromfloat")
			}
			return
		}
		// value-preserving when the source range fits
		fits := false
		if fi.signed == ti.signed && fi.bits <= ti.bits {
			fits = true
		}
		if !fi.signed && ti.signed && fi.bits < ti.bits {
			fits = true
		}
		if fits {
			fr.regs[x] = mkInt(v.T, to)
		} else {
			c.setReg(fr, x, mkInt(wrapTo(v.T, to), to))
		}
		return
	}
	// []byte <-> named []byte etc. are ChangeType; string conversions are opaque
	if v.K == KSlice && kindOf(to) == KSlice {
		fr.regs[x] = c.retype(v, to)
		return
	}
	if kindOf(to) == KStr {
		c.note("conversion to string is uninterpreted")
		fr.regs[x] = c.freshVal(bc.st, to, "tostring")
		return
	}
	if kindOf(to) == KSlice && v.K == KStr {
		c.note("conversion string->[]byte yields an unknown fresh slice")
		fr.regs[x] = c.freshSlice(bc.st, to, "frombytes")
		return
	}
	fr.regs[x] = poison("convert " + from.String() + " -> " + to.String())
}

func (c *FnCtx) freshSlice(st *State, t types.Type, prefix string) Val {
	v := c.freshVal(st, t, prefix)
	return v
}

func (c *FnCtx) execMakeInterface(bc *blockCtx, x *ssa.MakeInterface) {
	fr := bc.fr
	v := c.operand(bc, x.X)
	tag := smtInt(int64(c.eng.typeID(x.X.Type())))
	var pay string
	switch v.K {
	case KInt, KRef, KStr, KFunc:
		pay = v.T
	case KBool:
		pay = sIte(v.T, "1", "0")
	default:
		pay = c.sc.fresh("box", "Int")
		c.boxes[pay] = v
	}
	if v.K == KPoison {
		pay = c.sc.fresh("box", "Int")
	}
	fr.regs[x] = Val{K: KIface, Ty: x.Type(), Fs: []Val{mkInt(tag, nil), mkInt(pay, nil)}}
}

func (c *FnCtx) execTypeAssert(bc *blockCtx, x *ssa.TypeAssert) {
	fr := bc.fr
	v := c.operand(bc, x.X)
	if v.K != KIface {
		fr.regs[x] = poison("type assert on non-interface")
		return
	}
	var ok string
	var res Val
	if _, isIface := x.AssertedType.Underlying().(*types.Interface); isIface {
		ok = c.sc.fresh("implements", "Bool")
		if !x.CommaOk {
			// assertion to a wider interface of a non-nil value: assume fine if static type guarantees it
			c.note("interface-to-interface assertion assumed to succeed when value non-nil")
			ok = "(not (= " + v.Fs[0].T + " 0))"
		}
		res = v
		res.Ty = x.AssertedType
	} else {
		tag := smtInt(int64(c.eng.typeID(x.AssertedType)))
		ok = "(= " + v.Fs[0].T + " " + tag + ")"
		if b, has := c.boxes[v.Fs[1].T]; has && types.Identical(b.Ty, x.AssertedType) {
			res = b
		} else {
			switch kindOf(x.AssertedType) {
			case KInt, KRef, KStr, KFunc:
				res = Val{K: kindOf(x.AssertedType), T: v.Fs[1].T, Ty: x.AssertedType}
			case KBool:
				res = mkBool("(= " + v.Fs[1].T + " 1)")
			default:
				res = c.freshVal(bc.st, x.AssertedType, "unbox")
			}
		}
	}
	if x.CommaOk {
		// on failure the value is the zero value
		z := zeroVal(x.AssertedType)
		val := res
		if len(flatten(z)) == len(flatten(res)) && res.K != KIface {
			val = c.iteVal(ok, res, z)
		}
		fr.regs[x] = Val{K: KTuple, Ty: x.Type(), Fs: []Val{val, mkBool(ok)}}
		return
	}
	c.safety("typeassert", bc.reach, ok, x.Pos())
	fr.regs[x] = res
}

// ---------------------------------------------------------------- maps

func mapNames(mt *types.Map) (string, string, string) {
	k := typeKey(mt.Key()) + "->" + typeKey(mt.Elem())
	return "MV:" + k, "MP:" + k, "MC:" + k
}

// keyTerm encodes a map key as a single Int.
func (c *FnCtx) keyTerm(k Val) string {
	switch k.K {
	case KInt, KRef, KStr:
		return k.T
	case KBool:
		return sIte(k.T, "1", "0")
	}
	fs := flatten(k)
	if len(fs) == 0 {
		return "0"
	}
	t := fs[0]
	for _, f := range fs[1:] {
		t = "(pair " + t + " " + f + ")"
	}
	return t
}

func (c *FnCtx) mapInit(st *State, mt *types.Map, ref string) {
	_, mp, mc := mapNames(mt)
	c.heapStore(st, mp, arr2Sort("Bool"), ref, "((as const (Array Int Bool)) false)")
	c.heapStore(st, mc, arrSort("Int"), ref, "0")
}

func (c *FnCtx) mapPresent(st *State, mt *types.Map, ref, key string) string {
	_, mp, _ := mapNames(mt)
	a := c.heapGet(st, mp, arr2Sort("Bool"))
	return "(select (select " + a + " " + ref + ") " + key + ")"
}

func (c *FnCtx) mapCard(st *State, mt *types.Map, ref string) string {
	_, _, mc := mapNames(mt)
	a := c.heapGet(st, mc, arrSort("Int"))
	t := "(select " + a + " " + ref + ")"
	c.sc.assert("(<= 0 " + t + ")")
	return t
}

func (c *FnCtx) mapValue(st *State, mt *types.Map, ref, key string) Val {
	mv, _, _ := mapNames(mt)
	c.factBase, c.factAlloc = ref, st.alloc
	defer func() { c.factBase = "" }()
	return c.sliceFacts(buildVal(mt.Elem(), func(lf leaf) string {
		a := c.heapGet(st, mv+lf.path, arr2Sort(lf.sort))
		term := "(select (select " + a + " " + ref + ") " + key + ")"
		c.leafFact(st, term, lf)
		return term
	}))
}

func (c *FnCtx) mapStore(st *State, mt *types.Map, ref string, k, v Val) {
	mv, mp, mc := mapNames(mt)
	key := c.keyTerm(k)
	was := c.mapPresent(st, mt, ref, key)
	ls := flatten(v)
	for i, lf := range leavesOf(mt.Elem()) {
		if i >= len(ls) {
			break
		}
		a := c.heapGet(st, mv+lf.path, arr2Sort(lf.sort))
		c.heapStore(st, mv+lf.path, arr2Sort(lf.sort), ref, "(store (select "+a+" "+ref+") "+key+" "+ls[i]+")")
	}
	card := c.mapCard(st, mt, ref)
	c.heapStore(st, mc, arrSort("Int"), ref, sIte(was, card, "(+ "+card+" 1)"))
	pa := c.heapGet(st, mp, arr2Sort("Bool"))
	c.heapStore(st, mp, arr2Sort("Bool"), ref, "(store (select "+pa+" "+ref+") "+key+" true)")
}

func (c *FnCtx) mapDelete(st *State, mt *types.Map, ref string, k Val) {
	_, mp, mc := mapNames(mt)
	key := c.keyTerm(k)
	was := sAnd("(not (= "+ref+" 0))", c.mapPresent(st, mt, ref, key))
	card := c.mapCard(st, mt, ref)
	c.heapStore(st, mc, arrSort("Int"), ref, sIte(was, "(- "+card+" 1)", card))
	pa := c.heapGet(st, mp, arr2Sort("Bool"))
	c.heapStore(st, mp, arr2Sort("Bool"), ref, "(store (select "+pa+" "+ref+") "+key+" false)")
}

func (c *FnCtx) execLookup(bc *blockCtx, x *ssa.Lookup) {
	fr := bc.fr
	m := c.operand(bc, x.X)
	k := c.operand(bc, x.Index)
	mt, ok := x.X.Type().Underlying().(*types.Map)
	if !ok {
		// string indexing
		fr.regs[x] = poison("string index")
		return
	}
	key := c.keyTerm(k)
	present := sAnd("(not (= "+m.T+" 0))", c.mapPresent(bc.st, mt, m.T, key))
	val := c.mapValue(bc.st, mt, m.T, key)
	z := zeroVal(mt.Elem())
	val = c.iteVal(present, val, z)
	if x.CommaOk {
		fr.regs[x] = Val{K: KTuple, Ty: x.Type(), Fs: []Val{val, mkBool(present)}}
	} else {
		fr.regs[x] = val
	}
}

// execNext models map iteration: each Next yields an arbitrary key that is
// present now and not yet visited; iteration ends only when none exists.
func (c *FnCtx) execNext(bc *blockCtx, x *ssa.Next) {
	fr := bc.fr
	it := c.operand(bc, x.Iter)
	rng, _ := x.Iter.(*ssa.Range)
	if it.K != KTuple || rng == nil {
		fr.regs[x] = poison("next on unmodelled iterator")
		return
	}
	mt := rng.X.Type().Underlying().(*types.Map)
	m := it.Fs[0]
	gk := "$range." + rng.Name()
	vis := bc.st.ghost[gk].T
	k := c.sc.fresh("range.key", "Int")
	ok := c.sc.fresh("range.ok", "Bool")
	present := sAnd("(not (= "+m.T+" 0))", c.mapPresent(bc.st, mt, m.T, k))
	// ok => k present and unvisited
	c.sc.assert(sImp(ok, sAnd(present, "(not (select "+vis+" "+k+"))")))
	// !ok => every present key has been visited
	q := c.sc.fresh("range.q", "Int")
	_ = q
	c.sc.assert(sImp(sNot(ok), "(forall ((k!q Int)) (=> "+sAnd("(not (= "+m.T+" 0))", c.mapPresent(bc.st, mt, m.T, "k!q"))+" (select "+vis+" k!q)))"))
	nv := c.sc.fresh("range.visited", arrSort("Bool"))
	c.sc.assert(sEq(nv, sIte(ok, "(store "+vis+" "+k+" true)", vis)))
	bc.st.ghost[gk] = mkOpaque(nv, arrSort("Bool"))
	tt := x.Type().(*types.Tuple)
	// key value: decode only scalar keys
	var kv Val
	switch kindOf(mt.Key()) {
	case KInt, KRef, KStr:
		kv = Val{K: kindOf(mt.Key()), T: k, Ty: mt.Key()}
		for _, f := range typeFacts(kv, bc.st.alloc) {
			c.sc.assert(sImp(ok, f))
		}
	default:
		kv = c.freshVal(bc.st, mt.Key(), "range.k")
		c.sc.assert(sImp(ok, sEq(k, c.keyTerm(kv))))
	}
	vv := c.mapValue(bc.st, mt, m.T, k)
	_ = tt
	fr.regs[x] = Val{K: KTuple, Ty: x.Type(), Fs: []Val{mkBool(ok), kv, vv}}
}

func (c *FnCtx) execSelect(bc *blockCtx, x *ssa.Select) {
	fr := bc.fr
	c.note("select: nondeterministic choice among cases (safety only)")
	n := len(x.States)
	idx := c.sc.fresh("select.idx", "Int")
	lo := "0"
	if !x.Blocking {
		lo = "(- 1)"
	}
	c.sc.assert(fmt.Sprintf("(and (<= %s %s) (< %s %d))", lo, idx, idx, n))
	fs := []Val{mkInt(idx, types.Typ[types.Int]), mkBool(c.sc.fresh("select.recvok", "Bool"))}
	tt := x.Type().(*types.Tuple)
	for i := 2; i < tt.Len(); i++ {
		fs = append(fs, c.freshVal(bc.st, tt.At(i).Type(), "select.recv"))
	}
	// receiving marks waited(ch) for the chosen case; a case on a nil channel is never chosen
	// (execution continues only if the chosen case is on a non-nil channel)
	var ready []string
	for i, s := range x.States {
		if ch := c.operand(bc, s.Chan); ch.K == KRef {
			ready = append(ready, fmt.Sprintf("(=> (= %s %d) (not (= %s 0)))", idx, i, ch.T))
		}
	}
	if len(ready) > 0 {
		rd := c.sc.fresh("select.ready", "Bool")
		c.sc.assert(sImp(rd, sAnd(ready...)))
		bc.reach = sAnd(bc.reach, rd)
	}
	for i, s := range x.States {
		if s.Dir == types.RecvOnly {
			ch := c.operand(bc, s.Chan)
			if ch.K == KRef {
				a := c.heapGet(bc.st, "CH:waited", arrSort("Bool"))
				c.localTouched["CH:waited"] = true
				c.heapSet(bc.st, "CH:waited", arrSort("Bool"), sIte(fmt.Sprintf("(= %s %d)", idx, i), "(store "+a+" "+ch.T+" true)", a))
			}
		}
	}
	fr.regs[x] = Val{K: KTuple, Ty: x.Type(), Fs: fs}
}

func (c *FnCtx) runDefers(bc *blockCtx) {
	// execute the defers of this frame in LIFO order, each under its guard
	var mine []deferEntry
	var rest []deferEntry
	for _, d := range bc.st.defers {
		if d.frame == bc.fr {
			mine = append(mine, d)
		} else {
			rest = append(rest, d)
		}
	}
	bc.st.defers = rest
	for i := len(mine) - 1; i >= 0; i-- {
		d := mine[i]
		if d.active == "false" {
			continue
		}
		if d.wide {
			c.wideDeferEffects(bc, d)
			continue
		}
		if d.active == "true" {
			c.execCallWith(bc, &d.instr.Call, d.fnVal, d.args, d.instr.Pos())
			continue
		}
		// guarded: fork and merge
		skip := bc.st.clone()
		run := &blockCtx{fr: bc.fr, st: bc.st.clone(), reach: sAnd(bc.reach, d.active)}
		c.execCallWith(run, &d.instr.Call, d.fnVal, d.args, d.instr.Pos())
		m, r := c.merge([]edgeIn{{run.st, run.reach}, {skip, sAnd(bc.reach, sNot(d.active))}})
		bc.st = m.clone()
		bc.reach = r
	}
}

func describeVal(v Val) string {
	return strings.Join(flatten(v), ",")
}

// wideDeferEffects applies, at function exit, the effects of the deferred calls that earlier
// iterations of a loop registered (an unknown number, with unknown arguments): everything the
// callee's contract allows it to modify is havoced for all objects. Their preconditions are not
// checked here (only the last iteration's registration is executed as a real call).
func (c *FnCtx) wideDeferEffects(bc *blockCtx, d deferEntry) {
	cc := &d.instr.Call
	name := calleeName(cc)
	var callee *ssa.Function
	if f := cc.StaticCallee(); f != nil {
		callee = f
	}
	if callee != nil && callee.Pkg != nil {
		pp := callee.Pkg.Pkg.Path()
		if strings.HasPrefix(pp, "github.com/ipfs/go-log") || strings.HasPrefix(pp, "go.uber.org/zap") {
			return
		}
	}
	var spec *FuncSpec
	switch {
	case callee != nil:
		spec = c.eng.findSpec(callee)
	case cc.IsInvoke():
		spec = c.invokeSpec(cc)
	default:
		spec = c.funcValueSpec(cc, Val{})
	}
	if spec == nil {
		c.unsupported("defer inside loop of a callee without contract (" + name + ") at " + c.eng.posOf(d.instr.Pos()))
		return
	}
	c.assumed["deferred calls registered by earlier loop iterations ("+calleeShort(c.eng, callee, name)+"): effects applied wholesale at exit, preconditions checked for the last registration only"] = true
	if spec.Pure {
		return
	}
	// fresh symbolic arguments of the right types, only to resolve the targets' types
	var args []Val
	if cc.IsInvoke() {
		args = append(args, c.freshVal(bc.st, cc.Value.Type(), "defer.recv"))
	}
	for _, a := range cc.Args {
		args = append(args, c.freshVal(bc.st, a.Type(), "defer.arg"))
	}
	fnames := formalNames(spec, cc.Signature(), callee, len(args))
	var pkg *types.Package
	if callee != nil && callee.Pkg != nil {
		pkg = callee.Pkg.Pkg
	} else if spec.PkgPath != "" {
		pkg = c.eng.tpkgs[spec.PkgPath]
	}
	env := &Env{c: c, st: bc.st, old: bc.st, vars: map[string]Val{}, pkg: pkg, macros: spec.Macros}
	for i, n := range fnames {
		if i < len(args) && n != "_" {
			env.vars[n] = args[i]
		}
	}
	targets := c.modTargets(env, append(append([]*Expr(nil), spec.Modifies...), spec.TrustedModifies...), spec.Pos)
	na := c.sc.fresh("alloc", "Int")
	c.sc.assert("(>= " + na + " " + bc.st.alloc + ")")
	bc.st.alloc = na
	whole := func(n, srt string) { c.heapHavoc(bc.st, n, srt) }
	for _, t := range targets {
		switch t.kind {
		case "field":
			for _, lf := range leavesOf(t.ty) {
				whole(t.prefix+lf.path, arrSort(lf.sort))
			}
		case "elems":
			for _, lf := range leavesOf(t.ty) {
				whole(t.prefix+lf.path, arr2Sort(lf.sort))
			}
		case "map":
			mv, mp, mc := mapNames(t.mt)
			for _, lf := range leavesOf(t.mt.Elem()) {
				whole(mv+lf.path, arr2Sort(lf.sort))
			}
			whole(mp, arr2Sort("Bool"))
			whole(mc, arrSort("Int"))
		case "once":
			whole(t.prefix, arrSort("Bool"))
		case "ghostfield":
			whole(t.prefix, arrSort(t.name))
		case "chan":
			whole("CH:closed", arrSort("Bool"))
			whole("CH:waited", arrSort("Bool"))
		default:
			c.havocTargets(bc.st, []modTarget{t})
		}
	}
}

// initSyncState sets the ghost typestate of every sync.Once (not done) and sync.Mutex /
// sync.RWMutex (not held) field of a freshly allocated struct of type root.
func (c *FnCtx) initSyncState(st *State, root, t types.Type, path []int, ref string) {
	stt, ok := t.Underlying().(*types.Struct)
	if !ok {
		return
	}
	for i := 0; i < stt.NumFields(); i++ {
		ft := stt.Field(i).Type()
		np := append(append([]int(nil), path...), i)
		if n, ok := ft.(*types.Named); ok && n.Obj().Pkg() != nil && n.Obj().Pkg().Path() == "sync" {
			p, _ := pathString(root, np)
			switch n.Obj().Name() {
			case "Once":
				c.heapStore(st, "ONCE:"+typeKey(root)+p, arrSort("Bool"), ref, "false")
			case "Mutex", "RWMutex":
				c.heapStore(st, "LK:"+typeKey(root)+p, arrSort("Int"), ref, "0")
			}
			continue
		}
		if _, ok := ft.Underlying().(*types.Struct); ok {
			c.initSyncState(st, root, ft, np, ref)
		}
	}
}
