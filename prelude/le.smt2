; requires: bytes
; little-endian decoding of byte strings
(define-fun le16 ((b Bytes) (p Int)) Int (+ (bat b p) (* 256 (bat b (+ p 1)))))
(define-fun le32 ((b Bytes) (p Int)) Int (+ (bat b p) (* 256 (bat b (+ p 1))) (* 65536 (bat b (+ p 2))) (* 16777216 (bat b (+ p 3)))))
(define-fun le64 ((b Bytes) (p Int)) Int (+ (le32 b p) (* 4294967296 (le32 b (+ p 4)))))
