package main

// Engine: program loading, lookup tables, preludes.

import (
	"fmt"
	"go/token"
	"go/types"
	"os"
	"path/filepath"
	"regexp"
	"sort"
	"strings"

	"golang.org/x/tools/go/packages"
	"golang.org/x/tools/go/ssa"
	"golang.org/x/tools/go/ssa/ssautil"
)

type specFuncSig struct {
	Args []string
	Ret  string
}

type Prelude struct {
	Extends  []string // included whenever one of these is (derived lemmas); never in lemma queries
	Name     string
	Text     string
	Symbols  []string
	Requires []string
}

type Engine struct {
	// obligations listed as open known findings: a failing assertion among them is not cut
	// (assumed) after its check, so that it cannot make what follows vacuous
	openKF map[string]bool
	repo          string
	modPath       string
	fset          *token.FileSet
	prog          *ssa.Program
	pkgs          map[string]*ssa.Package
	tpkgs         map[string]*types.Package
	specs         *SpecDB
	fnByKey       map[string]*ssa.Function // pkgpath::Recv.Name
	allFns        []*ssa.Function
	preludes      map[string]*Prelude
	specFns       map[string]specFuncSig
	sorts         map[string]bool
	typeIDs       map[string]int
	strIDs        map[string]int
	verbose       bool
	blockCanaries bool
	aliases       map[string]map[string]string // package path -> import alias -> imported path
}

func fnKey(f *ssa.Function) string {
	if f.Pkg == nil {
		return ""
	}
	name := f.Name()
	// closures: Parent chain
	if f.Parent() != nil {
		return fnKey(f.Parent()) + strings.TrimPrefix(f.Name(), f.Parent().Name())
	}
	if recv := f.Signature.Recv(); recv != nil {
		t := recv.Type()
		if p, ok := t.(*types.Pointer); ok {
			t = p.Elem()
		}
		if n, ok := t.(*types.Named); ok {
			return f.Pkg.Pkg.Path() + "::" + n.Obj().Name() + "." + name
		}
	}
	return f.Pkg.Pkg.Path() + "::" + name
}

func loadEngine(repo, extDir, prelDir string) (*Engine, error) {
	e := &Engine{repo: repo, pkgs: map[string]*ssa.Package{}, tpkgs: map[string]*types.Package{}, fnByKey: map[string]*ssa.Function{},
		preludes: map[string]*Prelude{}, specFns: map[string]specFuncSig{}, sorts: map[string]bool{}, typeIDs: map[string]int{}, strIDs: map[string]int{}}
	gomod, err := os.ReadFile(filepath.Join(repo, "go.mod"))
	if err != nil {
		return nil, err
	}
	for _, ln := range strings.Split(string(gomod), "\n") {
		if strings.HasPrefix(ln, "module ") {
			e.modPath = strings.TrimSpace(strings.TrimPrefix(ln, "module "))
		}
	}
	env := []string{}
	for _, kv := range os.Environ() {
		if strings.HasPrefix(kv, "GOFLAGS=") || strings.HasPrefix(kv, "GOPROXY=") || strings.HasPrefix(kv, "GOSUMDB=") || strings.HasPrefix(kv, "GOTOOLCHAIN=") {
			continue
		}
		if strings.HasPrefix(kv, "PATH=") {
			kv = "PATH=/opt/veriftools/go1.26.8/bin:" + kv[5:]
		}
		env = append(env, kv)
	}
	env = append(env, "GOFLAGS=-mod=mod", "GOPROXY=off", "GOSUMDB=off", "GOTOOLCHAIN=local")
	cfg := &packages.Config{
		Mode:       packages.NeedName | packages.NeedFiles | packages.NeedCompiledGoFiles | packages.NeedImports | packages.NeedDeps | packages.NeedTypes | packages.NeedSyntax | packages.NeedTypesInfo | packages.NeedTypesSizes,
		Dir:        repo,
		BuildFlags: []string{"-tags=verif"},
		Env:        env,
	}
	pkgs, err := packages.Load(cfg, "./...")
	if err != nil {
		return nil, fmt.Errorf("packages.Load: %w", err)
	}
	var errs []string
	packages.Visit(pkgs, nil, func(p *packages.Package) {
		if strings.HasPrefix(p.PkgPath, e.modPath) {
			for _, er := range p.Errors {
				errs = append(errs, er.Error())
			}
		}
	})
	if len(errs) > 0 {
		return nil, fmt.Errorf("repository does not type-check: %s", strings.Join(errs, "; "))
	}
	e.aliases = map[string]map[string]string{}
	for _, p := range pkgs {
		m := map[string]string{}
		for _, f := range p.Syntax {
			for _, im := range f.Imports {
				path := strings.Trim(im.Path.Value, "\"")
				if im.Name != nil && im.Name.Name != "_" && im.Name.Name != "." {
					m[im.Name.Name] = path
				}
			}
		}
		e.aliases[p.PkgPath] = m
	}
	prog, spkgs := ssautil.AllPackages(pkgs, ssa.NaiveForm|ssa.InstantiateGenerics)
	e.prog = prog
	e.fset = prog.Fset
	for _, p := range spkgs {
		if p == nil {
			continue
		}
		if strings.HasPrefix(p.Pkg.Path(), e.modPath) {
			p.Build()
		}
		e.pkgs[p.Pkg.Path()] = p
		e.tpkgs[p.Pkg.Path()] = p.Pkg
	}
	for _, p := range prog.AllPackages() {
		if _, ok := e.pkgs[p.Pkg.Path()]; !ok {
			e.pkgs[p.Pkg.Path()] = p
			e.tpkgs[p.Pkg.Path()] = p.Pkg
		}
	}
	for f := range ssautil.AllFunctions(prog) {
		if f.Pkg == nil || !strings.HasPrefix(f.Pkg.Pkg.Path(), e.modPath) || f.Synthetic != "" {
			continue
		}
		k := fnKey(f)
		e.fnByKey[k] = f
		e.allFns = append(e.allFns, f)
	}
	sort.Slice(e.allFns, func(i, j int) bool { return fnKey(e.allFns[i]) < fnKey(e.allFns[j]) })
	e.specs, err = loadSpecs(repo, e.modPath, extDir)
	if err != nil {
		return nil, err
	}
	if err := e.loadPreludes(prelDir); err != nil {
		return nil, err
	}
	return e, nil
}

var reDecl = regexp.MustCompile(`^\((declare-fun|define-fun|define-fun-rec|declare-sort|declare-const|declare-datatypes|declare-datatype)\s+(\|[^|]*\||[^\s()]+)`)

func (e *Engine) loadPreludes(dir string) error {
	files, _ := filepath.Glob(filepath.Join(dir, "*.smt2"))
	sort.Strings(files)
	for _, f := range files {
		data, err := os.ReadFile(f)
		if err != nil {
			return err
		}
		p := &Prelude{Name: strings.TrimSuffix(filepath.Base(f), ".smt2"), Text: string(data)}
		for _, ln := range strings.Split(p.Text, "\n") {
			t := strings.TrimSpace(ln)
			if strings.HasPrefix(t, "; requires:") {
				p.Requires = append(p.Requires, splitProps(strings.TrimPrefix(t, "; requires:"))...)
			}
			if strings.HasPrefix(t, "; extends:") {
				p.Extends = append(p.Extends, splitProps(strings.TrimPrefix(t, "; extends:"))...)
				p.Requires = append(p.Requires, p.Extends...)
			}
			if i := strings.Index(t, ";"); i > 0 {
				t = strings.TrimSpace(t[:i])
			}
			m := reDecl.FindStringSubmatch(t)
			if m == nil {
				continue
			}
			name := m[2]
			p.Symbols = append(p.Symbols, name)
			switch m[1] {
			case "declare-sort":
				e.sorts[name] = true
			case "declare-fun", "define-fun", "define-fun-rec":
				if sig, ok := parseFunSig(t, m[1] != "declare-fun"); ok {
					e.specFns[name] = sig
				}
			case "declare-const":
				f := splitSexprs(t[1 : len(t)-1])
				if len(f) >= 3 {
					e.specFns[name] = specFuncSig{Ret: f[2]}
				}
			}
		}
		e.preludes[p.Name] = p
	}
	return nil
}

// splitSexprs splits the top-level s-expressions/atoms of a string.
func splitSexprs(s string) []string {
	var out []string
	d := 0
	cur := ""
	inq := false
	for _, c := range s {
		if c == '|' {
			inq = !inq
		}
		if !inq {
			if c == '(' {
				d++
			} else if c == ')' {
				d--
			}
			if (c == ' ' || c == '\t' || c == '\n') && d == 0 {
				if cur != "" {
					out = append(out, cur)
					cur = ""
				}
				continue
			}
		}
		cur += string(c)
		if !inq && d == 0 && c == ')' {
			out = append(out, cur)
			cur = ""
		}
	}
	if cur != "" {
		out = append(out, cur)
	}
	return out
}

func parseFunSig(line string, defined bool) (specFuncSig, bool) {
	// (declare-fun name (S1 S2) R)   /  (define-fun name ((x S1) (y S2)) R body
	if !strings.HasPrefix(line, "(") {
		return specFuncSig{}, false
	}
	// the line may be incomplete (multi-line define-fun): add closing parens leniently
	body := line[1:]
	parts := splitSexprs(body)
	if len(parts) < 4 {
		return specFuncSig{}, false
	}
	argsS := parts[2]
	ret := parts[3]
	if !strings.HasPrefix(argsS, "(") {
		return specFuncSig{}, false
	}
	inner := strings.TrimSpace(argsS[1 : len(argsS)-1])
	var args []string
	if defined {
		for _, b := range splitSexprs(inner) {
			f := splitSexprs(strings.TrimSpace(b[1 : len(b)-1]))
			if len(f) == 2 {
				args = append(args, f[1])
			}
		}
	} else {
		args = splitSexprs(inner)
	}
	ret = strings.TrimRight(ret, ")")
	if strings.HasPrefix(parts[3], "(") {
		ret = parts[3]
	}
	return specFuncSig{Args: args, Ret: ret}, true
}

func (e *Engine) typeID(t types.Type) int {
	k := typeKey(t)
	if id, ok := e.typeIDs[k]; ok {
		return id
	}
	id := len(e.typeIDs) + 1
	e.typeIDs[k] = id
	return id
}

func (e *Engine) strID(s string) int {
	if id, ok := e.strIDs[s]; ok {
		return id
	}
	id := len(e.strIDs) + 1
	e.strIDs[s] = id
	return id
}

// preludeFor assembles the preludes whose symbols occur in the query text.
func (e *Engine) preludeFor(body string, opts ...bool) (string, []string) {
	noExt := len(opts) > 0 && opts[0]
	need := map[string]bool{"core": true}
	changed := true
	for changed {
		changed = false
		for name, p := range e.preludes {
			if need[name] {
				continue
			}
			for _, s := range p.Symbols {
				if containsSymbol(body, s) {
					need[name] = true
					changed = true
					break
				}
			}
		}
		if !noExt {
			for name, p := range e.preludes {
				if need[name] {
					continue
				}
				for _, x := range p.Extends {
					if need[x] {
						need[name] = true
						changed = true
					}
				}
			}
		}
		for name := range need {
			if p := e.preludes[name]; p != nil {
				for _, r := range p.Requires {
					if !need[r] {
						need[r] = true
						changed = true
					}
				}
			}
		}
	}
	// order: core first, then by dependency (simple: sort with requires before)
	var names []string
	done := map[string]bool{}
	var visit func(n string)
	visit = func(n string) {
		if done[n] || e.preludes[n] == nil {
			return
		}
		done[n] = true
		for _, r := range e.preludes[n].Requires {
			visit(r)
		}
		names = append(names, n)
	}
	visit("core")
	var rest []string
	for n := range need {
		rest = append(rest, n)
	}
	sort.Strings(rest)
	for _, n := range rest {
		visit(n)
	}
	var sb strings.Builder
	for _, n := range names {
		sb.WriteString("; ---- prelude " + n + "\n")
		sb.WriteString(e.preludes[n].Text)
		sb.WriteString("\n")
	}
	return sb.String(), names
}

func containsSymbol(body, s string) bool {
	i := 0
	for {
		j := strings.Index(body[i:], s)
		if j < 0 {
			return false
		}
		j += i
		before := byte(' ')
		if j > 0 {
			before = body[j-1]
		}
		after := byte(' ')
		if j+len(s) < len(body) {
			after = body[j+len(s)]
		}
		if isDelim(before) && isDelim(after) {
			return true
		}
		i = j + 1
	}
}

func isDelim(c byte) bool {
	return c == ' ' || c == '(' || c == ')' || c == '\n' || c == '\t'
}

// findSpec returns the contract of an in-repo function, if any.
func (e *Engine) findSpec(f *ssa.Function) *FuncSpec {
	if f == nil {
		return nil
	}
	if f.Pkg != nil {
		if s, ok := e.specs.Funcs[fnKey(f)]; ok {
			return s
		}
	}
	if s, ok := e.specs.Funcs["ext::"+f.String()]; ok {
		return s
	}
	return nil
}

func (e *Engine) posOf(p token.Pos) string {
	if !p.IsValid() {
		return ""
	}
	ps := e.fset.Position(p)
	return fmt.Sprintf("%s:%d", ps.Filename, ps.Line)
}
