#!/bin/sh
# usage: tools/seeded_run.sh [pattern]   - runs every seeded/<id>/patch.diff against its property check
cd "$(dirname "$0")/.."
for d in seeded/*${1:-}*/; do
  id=$(basename "$d"); prop=${id%%-*}
  [ -f "$d/patch.diff" ] || continue
  out=$(timeout 1200 tools/mutant.sh "$d/patch.diff" "$prop" 2>&1)
  if echo "$out" | grep -q "^VIOLATION"; then echo "CAUGHT $id: $(echo "$out" | grep -o 'obligation=[^ ]*' | head -3 | tr '\n' ' ')";
  elif echo "$out" | grep -q "PATCH-DOES-NOT-APPLY"; then echo "NOAPPLY $id";
  else echo "MISSED $id: $(echo "$out" | tail -1 | cut -c1-150)"; fi
done
