; requires: bytes
; Layer-A abstract state of the store (DESIGN.md §3).
;   index:   Ein : Bytes -> Bool, Eblk : Bytes -> Int      (index key -> block code = pair(Offset,Size))
;   primary: Rin : Int -> Bool, Rkey/Rval : Int -> Bytes    (readable records by block code)
;   freelist: F  : Int -> Int                               (multiset of block codes)
(declare-fun ikey (Bytes) Bytes)
; wfkey(k): k is a well-formed primary key (multihash / CID), with a digest of at least 4 bytes; IndexKey(k) succeeds on such keys
(declare-fun wfkey (Bytes) Bool)
; (the property restricts keys to well-formed multihashes/CIDs whose digests are at least 4 bytes)
(assert (forall ((k Bytes)) (! (=> (wfkey k) (and (> (blen k) 0) (>= (blen (ikey k)) 4))) :pattern ((wfkey k)))))
; the entry a lookup of k lands on: k's own entry when present, otherwise none or some other
; entry (false positive) -- a deterministic function of the index contents.
(declare-fun ihit ((Array Bytes Bool) (Array Bytes Int) Bytes) Bool)
(declare-fun ires ((Array Bytes Bool) (Array Bytes Int) Bytes) Bytes)
(assert (forall ((a (Array Bytes Bool)) (b (Array Bytes Int)) (k Bytes)) (! (=> (select a k) (and (ihit a b k) (= (ires a b k) k))) :pattern ((ihit a b k)) :pattern ((ires a b k)))))
(assert (forall ((a (Array Bytes Bool)) (b (Array Bytes Int)) (k Bytes)) (! (=> (ihit a b k) (select a (ires a b k))) :pattern ((ires a b k)))))
