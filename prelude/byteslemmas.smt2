; extends: bytes
; Derived facts about byte strings, given to the solver as axioms with triggers. Each is proved
; on every run from the base axioms of bytes.smt2 alone (lemma.Bytes.* in the contract files;
; lemma queries never include this file).
(assert (forall ((a Bytes) (b Bytes) (c Bytes)) (! (=> (and (blt a b) (blt b c)) (blt a c)) :pattern ((blt a b) (blt b c)))))
(assert (forall ((a Bytes) (b Bytes)) (! (not (and (blt a b) (blt b a))) :pattern ((blt a b) (blt b a)))))
(assert (forall ((a Bytes) (b Bytes)) (! (=> (isprefix a b) (not (blt b a))) :pattern ((isprefix a b)))))
(assert (forall ((a Bytes) (b Bytes) (c Bytes)) (! (=> (and (blt a b) (blt b c) (not (isprefix a b))) (and (not (isprefix a c)) (not (isprefix c a)))) :pattern ((blt a b) (blt b c)))))
(assert (forall ((s Bytes) (n Int)) (! (=> (and (<= 0 n) (<= n (blen s))) (isprefix (bsub s 0 n) s)) :pattern ((bsub s 0 n)))))
(assert (forall ((a Bytes) (k Bytes) (t Int)) (! (=> (and (blt a k) (not (isprefix a k)) (<= (lcp k a) t) (< t (blen k))) (and (blt a (bsub k 0 (+ t 1))) (not (isprefix a (bsub k 0 (+ t 1)))) (not (isprefix (bsub k 0 (+ t 1)) a)))) :pattern ((blt a k) (bsub k 0 (+ t 1))))))
(assert (forall ((c Bytes) (k Bytes) (t Int)) (! (=> (and (blt k c) (not (isprefix k c)) (<= (lcp k c) t) (< t (blen k))) (and (blt (bsub k 0 (+ t 1)) c) (not (isprefix c (bsub k 0 (+ t 1)))) (not (isprefix (bsub k 0 (+ t 1)) c)))) :pattern ((blt k c) (bsub k 0 (+ t 1))))))
(assert (forall ((a Bytes) (b Bytes)) (! (or (= a b) (blt a b) (blt b a)) :pattern ((blt a b)))))
(assert (forall ((a Bytes) (b Bytes) (c Bytes)) (! (=> (and (blt a b) (not (isprefix a b)) (isprefix b c)) (and (blt a c) (not (isprefix a c)) (not (isprefix c a)))) :pattern ((blt a b) (isprefix b c)))))
(assert (forall ((a Bytes) (b Bytes) (c Bytes)) (! (=> (and (blt b a) (not (isprefix b a)) (isprefix b c)) (and (blt c a) (not (isprefix c a)) (not (isprefix a c)))) :pattern ((blt b a) (isprefix b c)))))
(assert (forall ((a Bytes) (b Bytes) (c Bytes)) (! (=> (and (isprefix a b) (isprefix b c)) (isprefix a c)) :pattern ((isprefix a b) (isprefix b c)))))
(assert (forall ((a Bytes) (b Bytes)) (! (=> (and (< (lcp a b) (blen a)) (< (lcp a b) (blen b))) (and (not (= (bsub a 0 (+ (lcp a b) 1)) (bsub b 0 (+ (lcp a b) 1)))) (not (isprefix (bsub a 0 (+ (lcp a b) 1)) (bsub b 0 (+ (lcp a b) 1)))) (not (isprefix (bsub b 0 (+ (lcp a b) 1)) (bsub a 0 (+ (lcp a b) 1)))))) :pattern ((bsub a 0 (+ (lcp a b) 1)) (bsub b 0 (+ (lcp a b) 1))))))
(assert (forall ((p Bytes) (x Bytes) (n Int)) (! (=> (and (isprefix p x) (<= (blen p) n) (<= n (blen x))) (isprefix p (bsub x 0 n))) :pattern ((isprefix p x) (bsub x 0 n)))))
(assert (forall ((p Bytes) (x Bytes) (y Bytes)) (! (=> (and (isprefix p x) (isprefix p y)) (<= (blen p) (lcp x y))) :pattern ((isprefix p x) (isprefix p y)))))
; sub-range of a slice view is the view of the sub-slice; whole range is identity
(assert (forall ((a (Array Int Int)) (o Int) (l Int) (lo Int) (hi Int)) (! (=> (and (<= 0 lo) (<= lo hi) (<= hi l)) (= (bsub (mkbytes a o l) lo hi) (mkbytes a (+ o lo) (- hi lo)))) :pattern ((bsub (mkbytes a o l) lo hi)))))
(assert (forall ((b Bytes)) (! (= (bsub b 0 (blen b)) b) :pattern ((bsub b 0 (blen b))))))
