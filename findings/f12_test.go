package store_test

// F12 (property C03; open): FreeList.ToGC flushes the freelist's in-memory pool into the file it
// hands to primary GC. The pool can hold locations whose index update has not been flushed yet
// (commit writes primary, then index, then freelist - but GC does not wait for a commit). GC then
// marks those records deleted ON DISK while the index ON DISK still points at them. After a crash
// the key reads its old value at first (the data bytes are still there), but the next GC cycles
// merge and truncate the "free" record and the key is gone: a key that was present at the last
// completed flush, and was never removed, reads as absent.
//   cd /repo && echo '{"Replace":{"/repo/store/f12_test.go":"/verif/findings/f12_test.go"}}' > /tmp/ov.json && go test -overlay /tmp/ov.json -vet=off -count=1 -run TestF12 ./store/

import (
	"bytes"
	"context"
	"fmt"
	"io"
	"os"
	"path/filepath"
	"testing"
	"time"

	"github.com/ipld/go-storethehash/store"
	mhprimary "github.com/ipld/go-storethehash/store/primary/multihash"
	"github.com/multiformats/go-multihash"
)

func copyDir(t *testing.T, from, to string) {
	ents, err := os.ReadDir(from)
	if err != nil {
		t.Fatal(err)
	}
	os.MkdirAll(to, 0o755)
	for _, e := range ents {
		if e.IsDir() {
			continue
		}
		in, err := os.Open(filepath.Join(from, e.Name()))
		if err != nil {
			t.Fatal(err)
		}
		out, err := os.Create(filepath.Join(to, e.Name()))
		if err != nil {
			t.Fatal(err)
		}
		io.Copy(out, in)
		in.Close()
		out.Close()
	}
}

func TestF12GCAppliesUncommittedFreelistEntries(t *testing.T) {
	base := t.TempDir()
	dir := filepath.Join(base, "live")
	os.MkdirAll(dir, 0o755)
	open := func(d string) *store.Store {
		s, err := store.OpenStore(context.Background(), store.MultihashPrimary, filepath.Join(d, "data"), filepath.Join(d, "index"), false,
			store.GCInterval(time.Hour), store.PrimaryFileSize(100))
		if err != nil {
			t.Fatal(err)
		}
		return s
	}
	key := func(i int) []byte {
		k, _ := multihash.Sum([]byte(fmt.Sprintf("key-%d", i)), multihash.SHA2_256, -1)
		return k
	}
	s := open(dir)
	// k0 and filler keys, flushed: k0 -> "v1" is what the last completed flush holds
	if err := s.Put(key(0), []byte("v1")); err != nil {
		t.Fatal(err)
	}
	for i := 1; i < 6; i++ {
		if err := s.Put(key(i), []byte("x")); err != nil {
			t.Fatal(err)
		}
	}
	if err := s.Flush(); err != nil {
		t.Fatal(err)
	}
	// overwrite k0: the new record, the index update and the freelist entry are all unflushed
	if err := s.Put(key(0), []byte("v2")); err != nil {
		t.Fatal(err)
	}
	// a GC cycle runs now (it never waits for a commit)
	mp := s.Primary().(*mhprimary.MultihashPrimary)
	if _, err := mp.GC(context.Background(), 101); err != nil {
		t.Logf("gc: %v", err)
	}
	// the process dies here: what is on disk is what a copy of the directory sees
	crashed := filepath.Join(base, "crashed")
	copyDir(t, dir, crashed)
	s.Close()

	r := open(crashed)
	defer r.Close()
	check := func(when string) {
		v, found, err := r.Get(key(0))
		if err != nil || !found || !(bytes.Equal(v, []byte("v1")) || bytes.Equal(v, []byte("v2"))) {
			t.Fatalf("%s: key 0 found=%v value=%q err=%v, want v1 or v2", when, found, v, err)
		}
	}
	check("right after recovery")
	rmp := r.Primary().(*mhprimary.MultihashPrimary)
	for c := 0; c < 3; c++ {
		if _, err := rmp.GC(context.Background(), 101); err != nil {
			t.Logf("gc after recovery: %v", err)
		}
		if err := r.Flush(); err != nil {
			t.Fatal(err)
		}
		check(fmt.Sprintf("after GC cycle %d on the recovered store", c))
	}
}
