; File names: fname(base, n) is the name of file number n of a log (index "<base>.<n>", primary
; "<base>.<n>"): injective in n for a given base.
(declare-fun fname (Int Int) Int)
(declare-fun fnum (Int) Int)
(assert (forall ((b Int) (n Int)) (! (= (fnum (fname b n)) n) :pattern ((fname b n)))))
; the empty set of file positions
(define-fun nopos () (Array Int Bool) ((as const (Array Int Bool)) false))
(declare-const nosize (Array Int Int))
; the size recorded in a FileInfo value (a snapshot: the same value on every call)
(declare-fun fisize (Int) Int)
