package main

// SMT script building and solver racing.

import (
	"bytes"
	"context"
	"fmt"
	"os"
	"os/exec"
	"path/filepath"
	"strings"
	"sync"
	"time"
)

// sym quotes an arbitrary name as an SMT-LIB symbol.
func sym(s string) string {
	simple := true
	for _, c := range s {
		if !(c >= 'a' && c <= 'z' || c >= 'A' && c <= 'Z' || c >= '0' && c <= '9' || c == '_' || c == '.' || c == '!' || c == '$' || c == '@') {
			simple = false
			break
		}
	}
	if simple && s != "" && !(s[0] >= '0' && s[0] <= '9') {
		return s
	}
	s = strings.NewReplacer("|", "!", "\\", "!").Replace(s)
	return "|" + s + "|"
}

func smtInt(n int64) string {
	if n < 0 {
		return fmt.Sprintf("(- %d)", -n)
	}
	return fmt.Sprintf("%d", n)
}

func sAnd(xs ...string) string {
	var ys []string
	for _, x := range xs {
		if x == "true" || x == "" {
			continue
		}
		if x == "false" {
			return "false"
		}
		ys = append(ys, x)
	}
	switch len(ys) {
	case 0:
		return "true"
	case 1:
		return ys[0]
	}
	return "(and " + strings.Join(ys, " ") + ")"
}

func sOr(xs ...string) string {
	var ys []string
	for _, x := range xs {
		if x == "false" || x == "" {
			continue
		}
		if x == "true" {
			return "true"
		}
		ys = append(ys, x)
	}
	switch len(ys) {
	case 0:
		return "false"
	case 1:
		return ys[0]
	}
	return "(or " + strings.Join(ys, " ") + ")"
}

func sNot(x string) string {
	switch x {
	case "true":
		return "false"
	case "false":
		return "true"
	}
	if strings.HasPrefix(x, "(not ") && strings.HasSuffix(x, ")") && balanced(x[5:len(x)-1]) {
		return x[5 : len(x)-1]
	}
	return "(not " + x + ")"
}

func balanced(s string) bool {
	d := 0
	inq := false
	for i, c := range s {
		if c == '|' {
			inq = !inq
		}
		if inq {
			continue
		}
		if c == '(' {
			d++
		} else if c == ')' {
			d--
			if d < 0 {
				return false
			}
			if d == 0 && i != len(s)-1 {
				return false
			}
		} else if d == 0 && (c == ' ') {
			return false
		}
	}
	return d == 0
}

func sImp(a, b string) string {
	if a == "true" {
		return b
	}
	if a == "false" || b == "true" {
		return "true"
	}
	return "(=> " + a + " " + b + ")"
}

func sIte(c, a, b string) string {
	if c == "true" {
		return a
	}
	if c == "false" {
		return b
	}
	if a == b {
		return a
	}
	return "(ite " + c + " " + a + " " + b + ")"
}

func sEq(a, b string) string {
	if a == b {
		return "true"
	}
	return "(= " + a + " " + b + ")"
}

// Script is the growing list of declarations and assertions of one function.
type Script struct {
	lines    []string
	declared map[string]string // name -> sort
	counter  int
}

func newScript() *Script { return &Script{declared: map[string]string{}} }

func (s *Script) declare(name, sort string) string {
	q := sym(name)
	if old, ok := s.declared[q]; ok {
		if old != sort {
			panic(fmt.Sprintf("redeclaration of %s: %s vs %s", q, old, sort))
		}
		return q
	}
	s.declared[q] = sort
	s.lines = append(s.lines, fmt.Sprintf("(declare-const %s %s)", q, sort))
	return q
}

func (s *Script) fresh(prefix, sort string) string {
	s.counter++
	return s.declare(fmt.Sprintf("%s!%d", prefix, s.counter), sort)
}

func (s *Script) assert(t string) {
	if t == "true" {
		return
	}
	s.lines = append(s.lines, "(assert "+t+")")
}

func (s *Script) comment(c string) {
	s.lines = append(s.lines, "; "+strings.ReplaceAll(c, "\n", " "))
}

func (s *Script) mark() int { return len(s.lines) }

// ---------------------------------------------------------------- solvers

type SolverResult struct {
	Verdict string // unsat, sat, unknown, timeout, error
	Solver  string
	Time    float64
	Model   string
	Raw     string
}

type solverDef struct {
	name string
	args func(file string, timeoutS int, seed int) []string
}

var solvers = []solverDef{
	{"z3-new", func(f string, t, seed int) []string {
		return []string{"z3-new", "-smt2", fmt.Sprintf("-T:%d", t), fmt.Sprintf("smt.random_seed=%d", seed), f}
	}},
	{"z3", func(f string, t, seed int) []string {
		return []string{"z3", "-smt2", fmt.Sprintf("-T:%d", t), fmt.Sprintf("smt.random_seed=%d", seed), f}
	}},
	{"cvc5", func(f string, t, seed int) []string {
		return []string{"cvc5", "--lang=smt2", fmt.Sprintf("--tlimit=%d", t*1000), fmt.Sprintf("--seed=%d", seed), f}
	}},
}

func runSolver(ctx context.Context, sd solverDef, file string, timeoutS, seed int, extra ...string) SolverResult {
	args := sd.args(file, timeoutS, seed)
	if len(extra) > 0 {
		args = append(args[:len(args)-1], append(extra, args[len(args)-1])...)
	}
	start := time.Now()
	cctx, cancel := context.WithTimeout(ctx, time.Duration(timeoutS+2)*time.Second)
	defer cancel()
	cmd := exec.CommandContext(cctx, args[0], args[1:]...)
	var out bytes.Buffer
	cmd.Stdout = &out
	cmd.Stderr = &out
	cmd.Run()
	el := time.Since(start).Seconds()
	raw := out.String()
	first := strings.TrimSpace(strings.SplitN(raw, "\n", 2)[0])
	res := SolverResult{Solver: sd.name, Time: el, Raw: raw}
	switch {
	case first == "unsat":
		res.Verdict = "unsat"
	case first == "sat":
		res.Verdict = "sat"
		if i := strings.Index(raw, "\n"); i >= 0 {
			res.Model = raw[i+1:]
		}
	case first == "unknown":
		res.Verdict = "unknown"
	case strings.Contains(first, "timeout") || cctx.Err() != nil:
		res.Verdict = "timeout"
	default:
		res.Verdict = "error"
	}
	return res
}

// raceSolvers: z3-new alone first with a short budget; if undecided, all
// three in parallel with the full budget. Returns the first definite answer
// (unsat/sat) and all results seen.
var useAlts = false

func raceSolversAlt(file string, timeoutS, seed int) (SolverResult, []SolverResult) {
	altMu.Lock()
	defer altMu.Unlock()
	useAlts = true
	defer func() { useAlts = false }()
	return raceSolvers(file, timeoutS, seed, false)
}

var altMu sync.Mutex

func raceSolvers(file string, timeoutS, seed int, wantTwo bool) (SolverResult, []SolverResult) {
	var all []SolverResult
	quickT := 3
	if timeoutS < quickT {
		quickT = timeoutS
	}
	r := runSolver(context.Background(), solvers[0], file, quickT, seed)
	all = append(all, r)
	if (r.Verdict == "unsat" || r.Verdict == "sat") && !wantTwo {
		return r, all
	}
	first := r
	ctx, cancel := context.WithCancel(context.Background())
	defer cancel()
	ch := make(chan SolverResult, len(solvers))
	var wg sync.WaitGroup
	for i, sd := range solvers {
		if i == 0 && (r.Verdict == "unsat" || r.Verdict == "sat") {
			continue
		}
		wg.Add(1)
		go func(sd solverDef) {
			defer wg.Done()
			ch <- runSolver(ctx, sd, file, timeoutS, seed)
		}(sd)
	}
	go func() { wg.Wait(); close(ch) }()
	var definite []SolverResult
	var tentative *SolverResult
	if first.Verdict == "unsat" || first.Verdict == "sat" {
		definite = append(definite, first)
	}
	for res := range ch {
		all = append(all, res)
		if res.Verdict == "unsat" && res.Solver == "z3" {
			// z3 4.8.12 alone is not trusted with "unsat" (it has answered unsat on a satisfiable
			// query here): wait for another solver, or have its unsat core re-checked below
			r := res
			tentative = &r
			continue
		}
		if res.Verdict == "unsat" || res.Verdict == "sat" {
			definite = append(definite, res)
			if !wantTwo || len(definite) >= 2 {
				cancel()
				break
			}
		}
	}
	if len(definite) == 0 && tentative != nil {
		if r, ok := confirmByCore(file, timeoutS, seed); ok {
			all = append(all, r)
			definite = append(definite, r)
		} else {
			all = append(all, SolverResult{Verdict: "unknown", Solver: "z3(unconfirmed unsat)", Time: tentative.Time})
		}
	}
	if len(definite) == 0 && useAlts {
		// undecided: "unknown" depends on heuristics; retry z3 with other configurations (cheap
		// when the answer comes back quickly)
		alts := [][]string{{"smt.mbqi=false"}, {"smt.random_seed=" + fmt.Sprint(seed+7)}, {"smt.qi.eager_threshold=100"}, {"smt.arith.solver=2"}}
		for _, extra := range alts {
			at := timeoutS
			if at > 6 {
				at = 6
			}
			r := runSolver(context.Background(), solvers[0], file, at, seed, extra...)
			r.Solver = "z3-new(" + strings.Join(extra, ",") + ")"
			all = append(all, r)
			if r.Verdict == "unsat" {
				definite = append(definite, r)
				break
			}
		}
	}
	if len(definite) > 0 {
		// disagreement check
		for _, d := range definite[1:] {
			if d.Verdict != definite[0].Verdict {
				return SolverResult{Verdict: "disagree", Solver: definite[0].Solver + "/" + d.Solver, Raw: definite[0].Raw + "\n---\n" + d.Raw}, all
			}
		}
		// prefer a sat result that has a model
		return definite[0], all
	}
	// undecided: report the most informative
	best := first
	for _, a := range all {
		if a.Verdict == "unknown" {
			best = a
		}
	}
	return best, all
}

func writeQuery(dir, name string, body string) (string, error) {
	fn := strings.Map(func(r rune) rune {
		if r >= 'a' && r <= 'z' || r >= 'A' && r <= 'Z' || r >= '0' && r <= '9' || r == '.' || r == '-' || r == '_' {
			return r
		}
		return '_'
	}, name)
	if len(fn) > 180 {
		fn = fn[:180]
	}
	p := filepath.Join(dir, fn+".smt2")
	return p, os.WriteFile(p, []byte(body), 0o644)
}

// confirmByCore re-checks an "unsat" that only z3 4.8.12 produced: z3 4.8.12 is asked for an unsat
// core over the named assertions, and the core alone must be refuted by z3-new or cvc5.
func confirmByCore(file string, timeoutS, seed int) (SolverResult, bool) {
	data, err := os.ReadFile(file)
	if err != nil {
		return SolverResult{}, false
	}
	lines := strings.Split(strings.Replace(string(data), "(get-model)", "", 1), "\n")
	var named []string
	n := 0
	for _, l := range lines {
		if strings.HasPrefix(l, "(assert ") && strings.HasSuffix(l, ")") && balanced(l) {
			n++
			named = append(named, fmt.Sprintf("(assert (! %s :named a!%d))", l[8:len(l)-1], n))
		} else {
			named = append(named, l)
		}
	}
	body := strings.Join(named, "\n")
	body = strings.Replace(body, "(set-option :produce-models true)", "(set-option :produce-unsat-cores true)", 1)
	body = strings.Replace(body, "(check-sat)", "(check-sat)\n(get-unsat-core)", 1)
	cf := strings.TrimSuffix(file, ".smt2") + ".named.smt2"
	if os.WriteFile(cf, []byte(body), 0o644) != nil {
		return SolverResult{}, false
	}
	for _, sd := range []int{seed, seed + 17, seed + 34} {
		r := runSolver(context.Background(), solvers[1], cf, timeoutS, sd)
		if r.Verdict != "unsat" {
			continue
		}
		core := map[string]bool{}
		for _, w := range strings.FieldsFunc(r.Raw, func(c rune) bool { return c == ' ' || c == '(' || c == ')' || c == '\n' }) {
			if strings.HasPrefix(w, "a!") {
				core[w] = true
			}
		}
		if len(core) == 0 {
			continue
		}
		var keep []string
		k := 0
		for _, l := range lines {
			if strings.HasPrefix(l, "(assert ") && strings.HasSuffix(l, ")") && balanced(l) {
				k++
				if !core[fmt.Sprintf("a!%d", k)] {
					continue
				}
			}
			keep = append(keep, l)
		}
		of := strings.TrimSuffix(file, ".smt2") + ".core.smt2"
		if os.WriteFile(of, []byte(strings.Join(keep, "\n")), 0o644) != nil {
			return SolverResult{}, false
		}
		for _, i := range []int{0, 2} {
			rr := runSolver(context.Background(), solvers[i], of, timeoutS, seed)
			if rr.Verdict == "unsat" {
				rr.Solver = "z3-core+" + rr.Solver
				rr.Time += r.Time
				return rr, true
			}
		}
	}
	return SolverResult{}, false
}
