package store_test

// F3 (property C01): a record put with a nil value and read back before the next flush was
// looked up on disk (the cached hit required value != nil); the read of unflushed data failed
// and the store then removed the index entry: the key was lost.
//   cd /repo && echo '{"Replace":{"/repo/store/f3_test.go":"/verif/findings/f3_test.go"}}' > /tmp/ov.json && go test -overlay /tmp/ov.json -vet=off -count=1 -run TestF3 ./store/

import (
	"context"
	"path/filepath"
	"testing"

	"github.com/ipld/go-storethehash/store"
	"github.com/multiformats/go-multihash"
)

func TestF3NilValueBeforeFlush(t *testing.T) {
	dir := t.TempDir()
	s, err := store.OpenStore(context.Background(), store.MultihashPrimary, filepath.Join(dir, "data"), filepath.Join(dir, "index"), false, store.GCInterval(0))
	if err != nil {
		t.Fatal(err)
	}
	defer s.Close()
	key, _ := multihash.Sum([]byte("key"), multihash.SHA2_256, -1)
	if err = s.Put(key, nil); err != nil {
		t.Fatal(err)
	}
	v, found, err := s.Get(key)
	if err != nil {
		t.Fatal(err)
	}
	if !found || len(v) != 0 {
		t.Fatalf("key put with a nil value: found=%v value=%q", found, v)
	}
	if err = s.Flush(); err != nil {
		t.Fatal(err)
	}
	if _, found, _ = s.Get(key); !found {
		t.Fatal("key lost after flush")
	}
}
