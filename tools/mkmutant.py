#!/usr/bin/env python3
"""mkmutant.py <name> <property> <expected-obligation-substring> <file-relative-to-repo> <<< "OLD\n====\nNEW"
Creates /verif/mutants/<name>.diff: a patch of /repo (HEAD version of the file) replacing OLD by NEW once."""
import sys, subprocess, os, tempfile, difflib
name, prop, expect, rel = sys.argv[1:5]
spec = sys.stdin.read()
old, new = spec.split("\n====\n")
old = old.strip("\n"); new = new.rstrip("\n").lstrip("\n")
src = subprocess.run(["git", "-C", "/repo", "show", "HEAD:" + rel], capture_output=True, text=True, check=True).stdout
if src.count(old) != 1:
    sys.exit("OLD occurs %d times in %s" % (src.count(old), rel))
dst = src.replace(old, new)
diff = "".join(difflib.unified_diff(src.splitlines(True), dst.splitlines(True), "a/" + rel, "b/" + rel))
with open("/verif/mutants/%s.diff" % name, "w") as f:
    f.write("# property: %s\n# expect: %s\n" % (prop, expect))
    f.write("diff --git a/%s b/%s\n" % (rel, rel))
    f.write(diff)
print("wrote /verif/mutants/%s.diff" % name)
