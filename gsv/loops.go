package main

// Loop rule: invariants established / preserved, havoc of what the body can
// modify (found by a syntactic cell scan plus a dry run of the body).

import (
	"fmt"
	"go/token"
	"go/types"
	"regexp"
	"sort"
	"strings"

	"golang.org/x/tools/go/ssa"
)

type scriptSave struct {
	lines    int
	declared map[string]string
	obls     int
	safety   map[string]int
	unsup    int
}

func (c *FnCtx) saveScript() scriptSave {
	d := make(map[string]string, len(c.sc.declared))
	for k, v := range c.sc.declared {
		d[k] = v
	}
	sf := make(map[string]int, len(c.safetyCtr))
	for k, v := range c.safetyCtr {
		sf[k] = v
	}
	return scriptSave{lines: len(c.sc.lines), declared: d, obls: len(c.obls), safety: sf, unsup: len(c.unsup)}
}

func (c *FnCtx) restoreScript(s scriptSave) {
	c.sc.lines = c.sc.lines[:s.lines]
	c.sc.declared = s.declared
	c.obls = c.obls[:s.obls]
	c.safetyCtr = s.safety
}

// cellRoot follows FieldAddr/IndexAddr chains to a local alloc.
func cellRoot(v ssa.Value) *ssa.Alloc {
	for {
		switch x := v.(type) {
		case *ssa.Alloc:
			if !x.Heap {
				return x
			}
			return nil
		case *ssa.FieldAddr:
			v = x.X
		case *ssa.IndexAddr:
			if _, ok := x.X.Type().Underlying().(*types.Slice); ok {
				return nil
			}
			v = x.X
		default:
			return nil
		}
	}
}

func (c *FnCtx) loopCells(fr *Frame, li *loopInfo) []*ssa.Alloc {
	seen := map[*ssa.Alloc]bool{}
	var out []*ssa.Alloc
	for b := range li.blocks {
		for _, in := range b.Instrs {
			if s, ok := in.(*ssa.Store); ok {
				if a := cellRoot(s.Addr); a != nil && !seen[a] {
					// cells allocated inside the loop are re-initialised on every iteration
					if li.blocks[a.Block()] {
						continue
					}
					seen[a] = true
					out = append(out, a)
				}
			}
		}
	}
	sort.Slice(out, func(i, j int) bool { return out[i].Pos() < out[j].Pos() })
	return out
}

var reSym = regexp.MustCompile(`\|[^|]*\||[A-Za-z_$.!@][A-Za-z0-9_$.!@:~/>\-]*`)

// declaredBefore reports whether every declared symbol in term existed in the
// given snapshot of declarations.
func declaredBefore(term string, now, before map[string]string) bool {
	for _, s := range reSym.FindAllString(term, -1) {
		if _, isDecl := now[s]; isDecl {
			if _, was := before[s]; !was {
				return false
			}
		}
	}
	return true
}

// chainRefs walks the derivation of a heap version back to `root`, returning
// the object refs written on the way, or ok=false if the chain is not made of
// point stores only.
func (c *FnCtx) chainRefs(ver, root string, depth int) ([]string, bool) {
	if ver == root {
		return nil, true
	}
	if depth > 400 {
		return nil, false
	}
	d, ok := c.deriv[ver]
	if !ok {
		return nil, false
	}
	var refs []string
	for _, p := range d.parents {
		r, ok := c.chainRefs(p, root, depth+1)
		if !ok {
			return nil, false
		}
		refs = append(refs, r...)
	}
	refs = append(refs, d.refs...)
	return refs, true
}

func (c *FnCtx) loopLabel(li *loopInfo) string { return fmt.Sprintf("loop%d", li.ord) }

func (c *FnCtx) enterLoop(bc *blockCtx, li *loopInfo, rr *regionRun) {
	fr := bc.fr
	lbl := c.loopLabel(li)
	hasInv := li.spec != nil && len(li.spec.Invs) > 0
	if !hasInv && !c.sweep && c.dry == 0 {
		c.unsupported(fmt.Sprintf("loop %d of %s has no invariant (header at %s)", li.ord, c.funcName, c.eng.posOf(firstPos(li.header))))
	}
	// 1. established
	if hasInv && c.dry == 0 {
		for i, inv := range li.spec.Invs {
			env := c.loopEnv(bc, li)
			goal, err := env.evalBool(inv.E)
			name := inv.Label
			if name == "" {
				name = fmt.Sprint(i)
			}
			if err != nil {
				c.contractStale(lbl+":established:"+name, inv.Pos, err, inv.Props)
				continue
			}
			c.oblige(lbl+":established", name, bc.reach, goal, inv.Pos, inv.Text, inv.Props)
		}
	}
	// 2. havoc cells stored in the loop
	before := c.saveScript()
	var deferredTyping []Val
	for _, a := range c.loopCells(fr, li) {
		key := cellKey{fr.id, a}
		old, ok := bc.st.cells[key]
		if !ok {
			continue
		}
		// the typing facts of the new value are asserted after the dry run, when it is known
		// whether the loop allocates: a reference carried around the loop may refer to an object
		// allocated by an earlier iteration, so it is bounded by the allocation mark *after* the
		// loop's allocations were accounted for (step 4), not by the mark at the loop's entry
		nv := c.havocLikeDeferred(bc.st, old, "h."+a.Comment)
		bc.st.cells[key] = nv
		deferredTyping = append(deferredTyping, nv)
	}
	// range iterators used in the loop
	for k := range bc.st.ghost {
		if strings.HasPrefix(k, "$range.") {
			bc.st.ghost[k] = mkOpaque(c.sc.fresh("range.visited", arrSort("Bool")), arrSort("Bool"))
		}
	}
	// 3. dry run
	hdr := bc.st.clone()
	save := c.saveScript()
	occSave := map[string]int{}
	for k, v := range fr.callOcc {
		occSave[k] = v
	}
	c.dry++
	var scratchExits []exitInfo
	backs := c.execRegion(fr, li.blocks, li.header, hdr.clone(), bc.reach, &scratchExits, li)
	c.dry--
	type heapMod struct {
		name  string
		whole bool
		refs  []string
	}
	var mods []heapMod
	modAlloc := false
	ghostMods := map[string]bool{}
	names := map[string]bool{}
	for _, b := range *backs {
		for _, w := range b.st.wild {
			has := false
			for _, x := range bc.st.wild {
				if x == w {
					has = true
				}
			}
			if !has {
				bc.st.wild = append(bc.st.wild, w)
			}
		}
		for n, v := range b.st.heap {
			hv, has := hdr.heap[n]
			if !has {
				hv = sym(n + "!0")
			}
			if v != hv {
				names[n] = true
			}
		}
		if b.st.alloc != hdr.alloc {
			modAlloc = true
		}
		for k, v := range b.st.ghost {
			if ov, has := hdr.ghost[k]; !has || strings.Join(flatten(ov), ",") != strings.Join(flatten(v), ",") {
				ghostMods[k] = true
			}
		}
	}
	var sortedNames []string
	for n := range names {
		sortedNames = append(sortedNames, n)
	}
	sort.Strings(sortedNames)
	for _, n := range sortedNames {
		hm := heapMod{name: n}
		hv, has := hdr.heap[n]
		if !has {
			hv = sym(n + "!0")
		}
		refSet := map[string]bool{}
		for _, b := range *backs {
			v, has := b.st.heap[n]
			if !has || v == hv {
				continue
			}
			refs, ok := c.chainRefs(v, hv, 0)
			if !ok {
				hm.whole = true
				break
			}
			for _, r := range refs {
				if !declaredBefore(r, c.sc.declared, save.declared) {
					hm.whole = true
					break
				}
				refSet[r] = true
			}
		}
		if !hm.whole {
			for r := range refSet {
				hm.refs = append(hm.refs, r)
			}
			sort.Strings(hm.refs)
		}
		mods = append(mods, hm)
	}
	sorts := map[string]string{}
	for _, m := range mods {
		sorts[m.name] = c.heapSorts[m.name]
	}
	c.restoreScript(save)
	fr.callOcc = occSave
	_ = before
	// 4. havoc heap (after accounting for the objects allocated by earlier iterations, so that
	// the havoced versions are typed against the new allocation mark)
	if modAlloc {
		na := c.sc.fresh("alloc", "Int")
		c.sc.assert("(>= " + na + " " + bc.st.alloc + ")")
		bc.st.alloc = na
	}
	for _, nv := range deferredTyping {
		for _, f := range typeFacts(nv, bc.st.alloc) {
			c.sc.assert(f)
		}
	}
	for _, m := range mods {
		srt := sorts[m.name]
		if strings.HasPrefix(m.name, "LK:") {
			// built-in loop invariant: the locks held by this thread at the loop head are the
			// same on every iteration (checked at each back edge)
			c.heapGet(bc.st, m.name, srt)
			dup := false
			for _, x := range li.lockNames {
				if x == m.name {
					dup = true
				}
			}
			if !dup {
				li.lockNames = append(li.lockNames, m.name)
			}
			continue
		}
		wasLocal := c.localTouched[m.name]
		c.foreignHavoc = !wasLocal
		if m.whole || len(m.refs) > 6 {
			c.heapHavoc(bc.st, m.name, srt)
			c.note(fmt.Sprintf("loop %d: heap array %s havoced as a whole", li.ord, m.name))
		} else {
			for _, r := range m.refs {
				inner := strings.TrimSuffix(strings.TrimPrefix(srt, "(Array Int "), ")")
				f := c.sc.fresh("h."+m.name, inner)
				c.heapStore(bc.st, m.name, srt, r, f)
			}
		}
		c.foreignHavoc = false
		// the function's frame condition is an implicit loop invariant (checked at every back edge)
		if c.spec != nil && c.dry == 0 && bc.fr == c.top && (wasLocal || strings.HasPrefix(m.name, "G:~")) {
			nv := c.heapGet(bc.st, m.name, srt)
			if f, ok := c.frameFormula(bc.fr, m.name, nv, c.entryTargets(bc.fr, c.spec), "r!f", "k!f"); ok {
				c.sc.assert("(forall ((r!f Int) (k!f Int)) " + f + ")")
				dup := false
				for _, x := range li.wholeNames {
					if x == m.name {
						dup = true
					}
				}
				if !dup {
					li.wholeNames = append(li.wholeNames, m.name)
				}
			}
		}
	}
	var gks []string
	for k := range ghostMods {
		gks = append(gks, k)
	}
	sort.Strings(gks)
	for _, k := range gks {
		if old, ok := bc.st.ghost[k]; ok {
			bc.st.ghost[k] = c.havocLike(bc.st, old, "hg."+k)
			if strings.HasPrefix(k, "$ev.") {
				c.sc.assert("(>= " + bc.st.ghost[k].T + " " + old.T + ")")
			}
		} else if strings.HasPrefix(k, "$ev.") {
			f := c.sc.fresh("hg."+k, "Int")
			c.sc.assert("(>= " + f + " 0)")
			bc.st.ghost[k] = mkInt(f, nil)
		}
	}
	// defers inside the loop: earlier iterations may have registered them
	for _, b := range li.header.Parent().Blocks {
		if !li.blocks[b] {
			continue
		}
		for _, in := range b.Instrs {
			if df, ok := in.(*ssa.Defer); ok {
				dup := false
				for _, e := range bc.st.defers {
					if e.wide && e.instr == df {
						dup = true
					}
				}
				if !dup {
					bc.st.defers = append(bc.st.defers, deferEntry{instr: df, frame: bc.fr, active: "true", wide: true})
				}
			}
		}
	}
	// 5. assume invariants
	if c.dry == 0 {
		c.runGhostAtState(bc.fr, bc.st, Anchor{Kind: "head", Loop: li.ord})
	}
	rr.hdrState[li] = bc.st.clone()
	if hasInv {
		for _, inv := range li.spec.Invs {
			env := c.loopEnv(bc, li)
			t, err := env.evalAssume(inv.E)
			if err != nil {
				continue // reported at established
			}
			c.sc.assert(sImp(bc.reach, t))
		}
	}
}

// havocLikeDeferred is havocLike without the typing facts (the caller asserts them later).
func (c *FnCtx) havocLikeDeferred(st *State, old Val, prefix string) Val {
	switch old.K {
	case KLoc, KPoison, KUnit:
		return old
	}
	sorts := leafSorts(old)
	ls := make([]string, len(sorts))
	for i, s := range sorts {
		ls[i] = c.sc.fresh(prefix, s)
	}
	nv, _ := rebuild(old, ls)
	if nv.K == KFunc {
		nv.Fn = nil
		nv.Binds = nil
	}
	return nv
}

// havocLike returns a fresh value with the shape and Go types of old.
func (c *FnCtx) havocLike(st *State, old Val, prefix string) Val {
	switch old.K {
	case KLoc, KPoison, KUnit:
		return old
	}
	sorts := leafSorts(old)
	ls := make([]string, len(sorts))
	for i, s := range sorts {
		ls[i] = c.sc.fresh(prefix, s)
	}
	nv, _ := rebuild(old, ls)
	if nv.K == KFunc {
		nv.Fn = nil
		nv.Binds = nil
	}
	for _, f := range typeFacts(nv, st.alloc) {
		c.sc.assert(f)
	}
	return nv
}

func firstPos(b *ssa.BasicBlock) token.Pos {
	for _, in := range b.Instrs {
		if in.Pos().IsValid() {
			return in.Pos()
		}
	}
	for _, s := range b.Succs {
		for _, in := range s.Instrs {
			if in.Pos().IsValid() {
				return in.Pos()
			}
		}
	}
	return 0
}

func (c *FnCtx) backEdge(bc *blockCtx, li *loopInfo, cond string, rr *regionRun) {
	if c.dry > 0 {
		return
	}
	lbl := c.loopLabel(li)
	if hs := rr.hdrState[li]; hs != nil {
		for _, n := range li.lockNames {
			now := c.heapGet(bc.st, n, c.heapSorts[n])
			was := c.heapGet(hs, n, c.heapSorts[n])
			if now != was {
				r := c.sc.fresh("lock.r", "Int")
				c.oblige("lock", lbl+":balanced:"+n, cond, "(= (select "+now+" "+r+") (select "+was+" "+r+"))", c.eng.posOf(firstPos(li.header)), "locks held at the loop head are the same on every iteration", c.lockProps())
			}
		}
	}
	if c.spec != nil && bc.fr == c.top {
		for _, n := range li.wholeNames {
			now := c.heapGet(bc.st, n, c.heapSorts[n])
			r := c.sc.fresh("frame.r", "Int")
			k := c.sc.fresh("frame.k", "Int")
			if f, ok := c.frameFormula(bc.fr, n, now, c.entryTargets(bc.fr, c.spec), r, k); ok {
				c.oblige(lbl+":frame", n, cond, f, c.spec.Pos, "frame (implicit loop invariant): only declared locations of "+n+" change", nil)
			}
		}
	}
	// ghost updates at the latch
	c.runGhostAt(bc, Anchor{Kind: "latch", Loop: li.ord})
	if li.spec == nil {
		return
	}
	for i, inv := range li.spec.Invs {
		env := c.loopEnv(bc, li)
		goal, err := env.evalBool(inv.E)
		name := inv.Label
		if name == "" {
			name = fmt.Sprint(i)
		}
		if err != nil {
			c.contractStale(lbl+":preserved:"+name, inv.Pos, err, inv.Props)
			continue
		}
		c.oblige(lbl+":preserved", name, cond, goal, inv.Pos, inv.Text, inv.Props)
	}
}

func (c *FnCtx) loopEnv(bc *blockCtx, li *loopInfo) *Env {
	return c.loopEnvSt(bc.fr, bc.st, li)
}

func (c *FnCtx) loopEnvSt(fr *Frame, st *State, li *loopInfo) *Env {
	bc := &blockCtx{fr: fr, st: st}
	env := c.newEnv(bc.fr, bc.st, c.top.entrySt)
	// visited(k): keys already produced by the map range driving this loop
	for _, in := range li.header.Instrs {
		if nx, ok := in.(*ssa.Next); ok {
			if rg, ok := nx.Iter.(*ssa.Range); ok {
				if v, ok := st.ghost["$range."+rg.Name()]; ok {
					env.vars["$visited"] = v
				}
			}
		}
	}
	// $idx: number of completed iterations of a range-over-slice loop
	for _, in := range li.header.Instrs {
		if s, ok := in.(*ssa.Store); ok {
			if a, ok := s.Addr.(*ssa.Alloc); ok && a.Comment == "rangeindex" {
				if v, ok := bc.st.cells[cellKey{bc.fr.id, a}]; ok {
					env.vars["$idx"] = mkInt("(+ "+v.T+" 1)", nil)
				}
			}
		}
	}
	return env
}

func (c *FnCtx) contractStale(label, pos string, err error, props []string) {
	o := c.oblige("stale", label, "true", "false", pos, "contract cannot be bound to the code: "+err.Error(), props)
	o.Skipped = "contract-stale: " + err.Error()
}
