package main

import (
	"context"
)

func bgctx() context.Context { return context.Background() }

// lemmaObligations turns `lemma` declarations tagged with prop into closed
// SMT goals over the preludes (each lemma may use earlier lemmas as axioms).
func lemmaObligations(eng *Engine, prop string) []*Obligation {
	var out []*Obligation
	byName := map[string]*Lemma{}
	for _, l := range eng.specs.Lemmas {
		byName[l.Name] = l
	}
	for _, l := range eng.specs.Lemmas {
		if !hasProp(l.Props, prop) {
			continue
		}
		c := eng.newFnCtx(nil, nil)
		c.funcName = "lemma." + l.Name
		st := &State{cells: map[cellKey]Val{}, heap: map[string]string{}, ghost: map[string]Val{}}
		st.alloc = c.sc.declare("alloc!0", "Int")
		env := &Env{c: c, st: st, vars: map[string]Val{}}
		ok := true
		for _, u := range l.Using {
			ul := byName[u]
			if ul == nil {
				ok = false
				continue
			}
			t, err := env.evalAssume(ul.E)
			if err != nil {
				ok = false
				continue
			}
			c.sc.assert(t)
		}
		goal, err := env.evalBool(l.E)
		ob := &Obligation{Name: "lemma." + l.Name, Kind: "lemma", Func: "lemma", Props: l.Props, Mark: c.sc.mark(), Cond: "true", Goal: goal, Pos: l.Pos, Text: l.Text, Script: c.sc}
		if err != nil || !ok {
			ob.Goal = "false"
			ob.Skipped = "contract-stale: lemma cannot be evaluated"
			if err != nil {
				ob.Skipped += ": " + err.Error()
			}
		}
		out = append(out, ob)
	}
	return out
}
