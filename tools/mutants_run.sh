#!/bin/sh
# usage: tools/mutants_run.sh [pattern] [jobs]  -- runs every mutant under /verif/mutants (jobs at a
# time, default 4) and checks that the expected obligation fails (must-fail corpus, DESIGN.md §2.10.5)
cd /verif
pat="${1:-}"; jobs="${2:-4}"
ls mutants/*${pat}*.diff | xargs -P "$jobs" -n 1 tools/mutant_one.sh
