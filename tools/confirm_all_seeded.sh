#!/bin/sh
# usage: tools/confirm_all_seeded.sh  - confirms every seeded change (see confirm_seeded.sh), sequentially
cd "$(dirname "$0")/.."
for d in seeded/*/; do tools/confirm_seeded.sh "$(basename $d)"; done
