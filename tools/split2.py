#!/usr/bin/env python3
"""split2.py <query.smt2> [timeout] [depth]: recursive case split on reach disjunctions."""
import re, subprocess, sys
f = sys.argv[1]; T = sys.argv[2] if len(sys.argv) > 2 else "20"; D = int(sys.argv[3]) if len(sys.argv) > 3 else 2
src = open(f).read()
defs = {m.group(1): m.group(2) for m in re.finditer(r'\(assert \(= (reach![0-9]+) \(or (.*)\)\)\)\n', src)}
def top(body):
    parts=[];d=0;cur='';q=False
    for ch in body:
        if ch=='|': q=not q
        if not q:
            if ch=='(':d+=1
            if ch==')':d-=1
            if ch==' ' and d==0:
                if cur:parts.append(cur);cur=''
                continue
        cur+=ch
    if cur:parts.append(cur)
    return parts
def run(extra):
    t=src.replace('(check-sat)','(assert %s)\n(check-sat)'%extra).replace('(get-model)','')
    open('/tmp/split2.smt2','w').write(t)
    out=subprocess.run(['z3-new','-smt2','-T:'+T,'/tmp/split2.smt2'],capture_output=True,text=True).stdout.split('\n')
    return out[0]
def rec(cond, depth, indent):
    r = run(cond)
    print(indent + r, cond[:140])
    if r != 'unsat' and depth > 0:
        # find reach symbols in cond whose definition is a disjunction
        for sym in re.findall(r'reach![0-9]+', cond):
            if sym in defs:
                for p in top(defs[sym]):
                    rec('(and %s %s)' % (cond, p) if cond != sym else p, depth-1, indent+'  ')
                break
tgt = re.findall(r'\(assert (reach![0-9]+)\)\n\(assert \(not', src)
rec(tgt[-1] if tgt else 'true', D, '')
