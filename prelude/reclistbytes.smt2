; requires: reclist
; requires: le
; Byte-level meaning of the record view (only loaded for queries that mention rbytes):
; entry i of a well-formed list B occupies bytes [rst(B,i), rst(B,i+1)):
;   8 bytes offset (little endian), 4 bytes size, 1 byte key length, key bytes.
; rbytes(B) holds for every B; it exists so that the defining axioms below have a trigger that
; only the proofs of the byte-level functions provide.
(declare-fun rbytes (Bytes) Bool)
(assert (forall ((b Bytes)) (! (rbytes b) :pattern ((rbytes b)))))
(assert (forall ((b Bytes) (i Int)) (! (=> (and (rbytes b) (rwf b) (<= 0 i) (< i (rn b)))
   (and (<= (+ (rst b i) 13 (bat b (+ (rst b i) 12))) (blen b))
        (= (rkey b i) (bsub b (+ (rst b i) 13) (+ (rst b i) 13 (bat b (+ (rst b i) 12)))))
        (= (rblk b i) (pair (le64 b (rst b i)) (le32 b (+ (rst b i) 8))))))
   :pattern ((rbytes b) (rst b i)))))
; a byte string that consists of exactly one record is a well-formed list of one entry
(assert (forall ((b Bytes)) (! (=> (and (rbytes b) (>= (blen b) 13) (= (blen b) (+ 13 (bat b 12)))) (and (rwf b) (= (rn b) 1))) :pattern ((rbytes b) (blen b)))))
