package main

// Verifying a function against its contract, and using contracts at calls.

import (
	"fmt"
	"go/token"
	"go/types"
	"sort"
	"strings"

	"golang.org/x/tools/go/ssa"
)

func (e *Engine) newFnCtx(fn *ssa.Function, spec *FuncSpec) *FnCtx {
	c := &FnCtx{eng: e, fn: fn, spec: spec, sc: newScript(), heapSorts: map[string]string{}, notes: map[string]bool{}, safetyCtr: map[string]int{},
		assumed: map[string]bool{}, inlined: map[string]bool{}, localTouched: map[string]bool{}, masks: map[string]string{}, pow2s: map[string]string{}, verAlloc: map[string]string{}, boxes: map[string]Val{}, deriv: map[string]derivInfo{}}
	if fn != nil {
		c.funcName = shortFuncName(fn, e.modPath)
	}
	if spec != nil {
		c.nopanic = spec.NoPanic
	}
	return c
}

// formalNames returns the names used for the formals of a callee: the header
// names of the contract if they match in number, else the Go names.
func formalNames(spec *FuncSpec, sig *types.Signature, callee *ssa.Function, nargs int) []string {
	if spec != nil && len(spec.ParamNms) == nargs {
		return spec.ParamNms
	}
	var out []string
	if callee != nil {
		for _, p := range callee.Params {
			out = append(out, p.Name())
		}
		if len(out) == nargs {
			return out
		}
	}
	out = nil
	if sig.Recv() != nil {
		out = append(out, sig.Recv().Name())
	}
	for i := 0; i < sig.Params().Len(); i++ {
		out = append(out, sig.Params().At(i).Name())
	}
	for len(out) < nargs {
		out = append([]string{"$recv"}, out...)
	}
	return out
}

func resultNames(spec *FuncSpec, sig *types.Signature) []string {
	n := sig.Results().Len()
	out := make([]string, n)
	for i := 0; i < n; i++ {
		out[i] = sig.Results().At(i).Name()
		if out[i] == "" || out[i] == "_" {
			out[i] = fmt.Sprintf("$ret%d", i)
		}
	}
	if spec != nil && len(spec.ResultNms) == n {
		for i, r := range spec.ResultNms {
			if r != "_" {
				out[i] = r
			}
		}
	}
	return out
}

// verifyFunction generates all obligations of fn against its contract.
func (e *Engine) verifyFunction(fn *ssa.Function, spec *FuncSpec, sweep bool) *FnCtx {
	c := e.newFnCtx(fn, spec)
	c.sweep = sweep
	c.blockCanaries = e.blockCanaries
	defer func() {
		if r := recover(); r != nil {
			if se, ok := r.(specErr); ok {
				c.unsupported("contract error: " + se.msg)
				return
			}
			panic(r)
		}
	}()
	st := &State{cells: map[cellKey]Val{}, heap: map[string]string{}, ghost: map[string]Val{}}
	st.alloc = c.sc.declare("alloc!0", "Int")
	c.sc.assert("(>= " + st.alloc + " 0)")
	fr := c.newFrame(fn, nil)
	c.top = fr
	var args []Val
	for _, p := range fn.Params {
		v := c.freshVal(st, p.Type(), "p."+p.Name())
		args = append(args, v)
	}
	for _, fv := range fn.FreeVars {
		// free variables are pointers to captured cells
		v := c.freshVal(st, fv.Type(), "fv."+fv.Name())
		fr.freeVar[fv] = v
		fr.params[fv.Name()] = v
	}
	for i, p := range fn.Params {
		fr.params[p.Name()] = args[i]
	}
	// header names may rename parameters positionally
	if spec != nil && len(spec.ParamNms) == len(args) {
		for i, n := range spec.ParamNms {
			if n != "_" {
				fr.params[n] = args[i]
			}
		}
	}
	for _, g := range e.specs.Globals {
		st.ghost[g.Name] = sortVal(c.sc.declare("gg."+g.Name+"!0", g.Sort), g.Sort)
	}
	fr.entrySt = st.clone()
	entry := st.clone()
	c.lockInit = map[string][][2]string{}
	if spec != nil {
		for _, h := range spec.Holds {
			func() {
				defer func() {
					if r := recover(); r != nil {
						if se, ok := r.(specErr); ok {
							c.contractStale("holds", spec.Pos, se, nil)
							return
						}
						panic(r)
					}
				}()
				env := c.newEnv(fr, st, entry)
				env.entryPar = true
				val := "1"
				e := h
				if h.Op == "call" && h.Name == "r" {
					val = "2"
					e = h.Args[0]
				}
				l := env.evalLoc(e)
				c.lockInit[lockArrayName(l)] = append(c.lockInit[lockArrayName(l)], [2]string{l.Base, val})
			}()
		}
	}
	if spec != nil {
		for _, w := range spec.UnguardedWhy {
			c.assumed[shortFuncName(fn, c.eng.modPath)+" "+w] = true
		}
		// ghost vars
		for _, g := range spec.GhostVars {
			env := c.newEnv(fr, st, entry)
			env.entryPar = true
			v, err := env.evalVal(g.Init)
			if err != nil {
				c.contractStale("ghost:"+g.Name, spec.Pos, err, nil)
				continue
			}
			st.ghost[g.Name] = v
		}
		// receiver non-nil is an implicit precondition of methods
		if fn.Signature.Recv() != nil && len(args) > 0 && args[0].K == KRef {
			c.sc.assert("(not (= " + args[0].T + " 0))")
		}
		for _, r := range spec.Requires {
			env := c.newEnv(fr, st, entry)
			env.entryPar = true
			t, err := env.evalAssume(r.E)
			if err != nil {
				c.contractStale("requires:"+clauseName(r, 0), r.Pos, err, r.Props)
				continue
			}
			c.sc.assert(t)
		}

		c.assumeInvariants(fr, st, entry, spec)
	}
	fr.entrySt = st.clone()
	// vacuity: the preconditions must be satisfiable (checked by the canary below)
	c.runGhostAtState(fr, st, Anchor{Kind: "entry"})
	var exits []exitInfo
	for i, p := range fn.Params {
		fr.regs[p] = args[i]
	}
	c.execRegion(fr, nil, fn.Blocks[0], st, "true", &exits, nil)
	if len(exits) == 0 {
		c.note("function has no reachable return")
	} else {
		if len(exits) > 1 {
			// vacuity: every return must be reachable under the contract and the callee contracts used
			// ordinal of each return statement in source order
			var rets []*ssa.Return
			for _, b := range fn.Blocks {
				for _, in := range b.Instrs {
					if r, ok := in.(*ssa.Return); ok {
						rets = append(rets, r)
					}
				}
			}
			sort.SliceStable(rets, func(i, j int) bool { return rets[i].Pos() < rets[j].Pos() })
			ord := map[*ssa.Return]int{}
			for i, r := range rets {
				ord[r] = i
			}
			for _, ex := range exits {
				n := ord[ex.ret]
				if spec != nil && spec.VacuousOK[n] != "" {
					c.note(fmt.Sprintf("return#%d declared unreachable under the contract: %s", n, spec.VacuousOK[n]))
					c.assumed[fmt.Sprintf("return#%d of %s is declared unreachable under the contract (no vacuity canary): %s", n, shortFuncName(fn, e.modPath), spec.VacuousOK[n])] = true
					continue
				}
				o := c.oblige("canary", fmt.Sprintf("return#%d", n), ex.cond, "false", c.eng.posOf(ex.ret.Pos()), "vacuity canary for one return path", nil)
				o.Canary = true
			}
		}
		c.atReturn(fr, c.mergeExits(fr, exits), 0, 1)
	}
	// every anchor named by the contract must exist in the code: an assertion or ghost update
	// attached to a call site that is no longer there would otherwise silently disappear
	if spec != nil && len(c.unsup) == 0 {
		check := func(a Anchor, pos, what string) {
			if a.Kind != "before" && a.Kind != "after" && a.Kind != "latch" && a.Kind != "head" {
				return
			}
			if !c.anchorSeen[anchorString(a)] {
				c.contractStale("anchor:"+anchorString(a), pos, fmt.Errorf("%s is attached to %s, which does not occur in the function", what, anchorString(a)), nil)
			}
		}
		for _, as := range spec.Asserts {
			check(as.Anchor, as.C.Pos, "an assertion")
		}
		for _, g := range spec.GhostAt {
			check(g.Anchor, g.Pos, "a ghost update")
		}
	}
	return c
}

// mergeExits joins all returns into one exit so that each postcondition is one
// obligation with a name that does not depend on the number of return statements.
func (c *FnCtx) mergeExits(fr *Frame, exits []exitInfo) exitInfo {
	if len(exits) == 1 {
		return exits[0]
	}
	var ins []edgeIn
	nres := len(exits[0].results)
	for i := range exits {
		st := exits[i].st.clone()
		for j := 0; j < nres; j++ {
			st.ghost[fmt.Sprintf("$ret.%d.%d", fr.id, j)] = exits[i].results[j]
		}
		ins = append(ins, edgeIn{st, exits[i].cond})
	}
	m, r := c.merge(ins)
	m = m.clone()
	var rs []Val
	for j := 0; j < nres; j++ {
		k := fmt.Sprintf("$ret.%d.%d", fr.id, j)
		rs = append(rs, m.ghost[k])
		delete(m.ghost, k)
	}
	return exitInfo{st: m, cond: r, results: rs}
}

func clauseName(cl Clause, i int) string {
	if cl.Label != "" {
		return cl.Label
	}
	return fmt.Sprint(i)
}

func (c *FnCtx) heldTerm(env *Env, e *Expr) (t string, err error) {
	defer func() {
		if r := recover(); r != nil {
			if se, ok := r.(specErr); ok {
				err = se
				return
			}
			panic(r)
		}
	}()
	// holds x.lk  (write)  |  holds r(x.lk) (read or write)
	if e.Op == "call" && e.Name == "r" {
		lt := env.lockTerm(e.Args[0])
		return "(or (= " + lt + " 1) (= " + lt + " 2))", nil
	}
	return "(= " + env.lockTerm(e) + " 1)", nil
}

func (c *FnCtx) atReturn(fr *Frame, ex exitInfo, idx, total int) {
	spec := c.spec
	st := ex.st
	bc := &blockCtx{fr: fr, st: st, reach: ex.cond}
	if spec != nil {
		rn0 := resultNames(spec, fr.fn.Signature)
		c.retRes = map[string]Val{}
		for i, r := range ex.results {
			if i < len(rn0) {
				c.retRes[rn0[i]] = r
			}
		}
	}
	c.runGhostAt(bc, Anchor{Kind: "return"})
	c.retRes = nil
	suffix := ""
	if total > 1 {
		suffix = fmt.Sprintf("@ret%d", idx)
	}
	if spec != nil {
		rn := resultNames(spec, fr.fn.Signature)
		mkEnv := func() *Env {
			env := c.newEnv(fr, st, c.top.entrySt)
			env.entryPar = true
			for i, r := range ex.results {
				if i < len(rn) {
					env.vars[rn[i]] = r
				}
			}
			return env
		}
		for i, en := range append(append([]Clause(nil), spec.Ensures...), spec.InternalEnsures...) {
			env := mkEnv()
			goal, err := env.evalBool(en.E)
			if err != nil {
				c.contractStale("ensures:"+clauseName(en, i)+suffix, en.Pos, err, en.Props)
				continue
			}
			c.oblige("ensures", clauseName(en, i)+suffix, ex.cond, goal, en.Pos, en.Text, en.Props)
		}
		for _, fname := range spec.Fresh {
			env := mkEnv()
			v, ok := env.vars[fname]
			if !ok {
				continue
			}
			t := v.T
			if v.K == KSlice {
				t = v.Fs[0].T
			}
			c.oblige("ensures", "fresh:"+fname+suffix, ex.cond, sOr("(= "+t+" 0)", "(> "+t+" "+c.top.entrySt.alloc+")"), spec.Pos, "fresh "+fname, nil)
		}
		c.proveInvariants(fr, st, ex.cond, spec, suffix)
		c.frameCheck(fr, st, ex.cond, spec, suffix)
		c.lockBalance(fr, st, ex.cond, spec, suffix)
	}
	// canary: `false` at this return must not be provable
	o := c.oblige("canary", "return"+suffix, ex.cond, "false", c.eng.posOf(fr.fn.Pos()), "vacuity canary", nil)
	o.Canary = true
}

// ---------------------------------------------------------------- ghost code

// inTopScope: the frame is the function under verification or a closure of it inlined into it.
func (c *FnCtx) inTopScope(fr *Frame) bool {
	if fr == c.top {
		return true
	}
	return fr != nil && fr.fn.Parent() != nil && c.top != nil && fr.fn.Parent() == c.top.fn
}

func (c *FnCtx) runGhostAt(bc *blockCtx, a Anchor) {
	c.runGhostAtState(bc.fr, bc.st, a)
	if c.spec == nil || !c.inTopScope(bc.fr) {
		return
	}
	for _, as := range c.spec.Asserts {
		if !anchorMatch(as.Anchor, a) {
			continue
		}
		env := c.newEnv(bc.fr, bc.st, c.top.entrySt)
		c.bindCallVars(env, bc)
		t, err := env.evalBool(as.C.E)
		if err != nil {
			c.contractStale("assert:"+as.C.Label, as.C.Pos, err, as.C.Props)
			continue
		}
		if as.Assume {
			c.sc.assert(sImp(bc.reach, t))
			c.assumed["input invariant @"+as.C.Label+" ("+shortFuncName(c.top.fn, c.eng.modPath)+"): "+as.C.Text] = true
			continue
		}
		if c.dry > 0 {
			continue
		}
		lbl := as.C.Label
		if lbl == "" {
			lbl = anchorString(a)
		}
		ao := c.oblige("assert", lbl, bc.reach, t, as.C.Pos, as.C.Text, as.C.Props)
		if c.eng.openKF[ao.Name] {
			continue // a listed open finding: known not to hold, so it is not assumed afterwards
		}
		// cut rule: once proved, the asserted fact is available to everything that follows
		if ta, err := env.evalAssume(as.C.E); err == nil {
			c.sc.assert(sImp(bc.reach, ta))
		}
	}
}

// bindCallVars makes the results of the call at an `after call` anchor
// available to ghost code as $r0, $r1, ...
func (c *FnCtx) bindCallVars(env *Env, bc *blockCtx) {
	for i, v := range c.callRes {
		env.vars[fmt.Sprintf("$r%d", i)] = v
	}
	for k, v := range c.retRes {
		env.vars[k] = v
	}
	for i, v := range c.callArgs {
		env.vars[fmt.Sprintf("$a%d", i)] = v
	}
}

func anchorString(a Anchor) string {
	switch a.Kind {
	case "latch", "head":
		return fmt.Sprintf("loop%d-%s", a.Loop, a.Kind)
	case "before", "after":
		return fmt.Sprintf("%s-%s#%d", a.Kind, a.Callee, a.Occ)
	}
	return a.Kind
}

func anchorMatch(decl, at Anchor) bool {
	if decl.Kind != at.Kind {
		return false
	}
	switch decl.Kind {
	case "latch", "head":
		return decl.Loop == at.Loop
	case "before", "after":
		if decl.Callee != at.Callee {
			return false
		}
		return decl.Occ < 0 || decl.Occ == at.Occ
	}
	return true
}

func (c *FnCtx) runGhostAtState(fr *Frame, st *State, a Anchor) {
	if c.spec == nil || !c.inTopScope(fr) {
		return
	}
	if c.anchorSeen == nil {
		c.anchorSeen = map[string]bool{}
	}
	c.anchorSeen[anchorString(a)] = true
	if a.Kind == "before" || a.Kind == "after" {
		c.anchorSeen[fmt.Sprintf("%s-%s#-1", a.Kind, a.Callee)] = true
	}
	for _, u := range c.spec.Unfolds {
		if !anchorMatch(u.Anchor, a) {
			continue
		}
		env := c.newEnv(fr, st, c.top.entrySt)
		if li := c.loopByOrd(fr, a); li != nil {
			env = c.loopEnvSt(fr, st, li)
		}
		t, err := env.unfoldTerm(u.Call)
		if err != nil {
			c.contractStale("unfold", u.Pos, err, nil)
			continue
		}
		c.sc.assert(t)
	}
	for _, g := range c.spec.GhostAt {
		if !anchorMatch(g.Anchor, a) {
			continue
		}
		env := c.newEnv(fr, st, c.top.entrySt)
		c.bindCallVars(env, nil)
		v, err := env.evalVal(g.RHS)
		if err != nil {
			c.contractStale("ghost-at", g.Pos, err, nil)
			continue
		}
		switch g.LHS.Op {
		case "id":
			if _, ok := st.ghost[g.LHS.Name]; !ok {
				c.contractStale("ghost-at", g.Pos, fmt.Errorf("ghost variable %s not declared", g.LHS.Name), nil)
				continue
			}
			st.ghost[g.LHS.Name] = v
		case "sel":
			// ghost field of an object
			bv, err := env.evalVal(g.LHS.Args[0])
			if err != nil || bv.K != KRef {
				c.contractStale("ghost-at", g.Pos, fmt.Errorf("bad ghost field target"), nil)
				continue
			}
			l := c.ptrToLoc(bv)
			srt := env.ghostFieldSort(l.Root, g.LHS.Name)
			if srt == "" {
				c.contractStale("ghost-at", g.Pos, fmt.Errorf("ghost field %s not declared", g.LHS.Name), nil)
				continue
			}
			c.heapStore(st, ghostArrayName(l.Root, g.LHS.Name), arrSort(srt), bv.T, flatten(v)[0])
		}
	}
}

func (c *FnCtx) loopByOrd(fr *Frame, a Anchor) *loopInfo {
	if a.Kind != "latch" && a.Kind != "head" {
		return nil
	}
	for _, l := range fr.loops {
		if l.ord == a.Loop {
			return l
		}
	}
	return nil
}

// unfoldTerm: `f(args)` becomes the instance `(f.def args)` of f's defining
// equation, which the prelude provides as a define-fun named f.def.
func (env *Env) unfoldTerm(call *Expr) (t string, err error) {
	defer func() {
		if r := recover(); r != nil {
			if se, ok := r.(specErr); ok {
				err = se
				return
			}
			panic(r)
		}
	}()
	// expand macros first: evaluate the call and take the resulting application
	v := env.eval(call)
	app := strings.TrimSpace(v.T)
	if !strings.HasPrefix(app, "(") {
		fail("%s: unfold target does not evaluate to an application", call.Pos)
	}
	parts := splitSexprs(app[1 : len(app)-1])
	name := parts[0]
	if _, ok := env.c.eng.specFns[name+".def"]; !ok {
		fail("%s: no defining equation %s.def in the preludes", call.Pos, name)
	}
	return "(" + name + ".def " + strings.Join(parts[1:], " ") + ")", nil
}

// ---------------------------------------------------------------- object invariants

// preservesOf splits `preserves x -label1 -label2` into targets and excluded invariant labels.
func preservesOf(spec *FuncSpec) (targets []string, except map[string]bool) {
	except = map[string]bool{}
	for _, p := range spec.Preserves {
		if strings.HasPrefix(p, "-") {
			except[p[1:]] = true
		} else {
			targets = append(targets, p)
		}
	}
	return
}

func (c *FnCtx) typeSpecOf(t types.Type) *TypeSpec {
	if p, ok := t.Underlying().(*types.Pointer); ok {
		t = p.Elem()
	}
	if p, ok := t.(*types.Pointer); ok {
		t = p.Elem()
	}
	if n, ok := t.(*types.Named); ok && n.Obj().Pkg() != nil {
		return c.eng.specs.Types[n.Obj().Pkg().Path()+"::"+n.Obj().Name()]
	}
	return nil
}

func (c *FnCtx) assumeInvariants(fr *Frame, st, entry *State, spec *FuncSpec) {
	ptargets, pexcept := preservesOf(spec)
	for _, target := range ptargets {
		v, ok := fr.params[target]
		if !ok {
			c.contractStale("preserves", spec.Pos, fmt.Errorf("preserves: no parameter %s", target), nil)
			continue
		}
		ts := c.typeSpecOf(v.Ty)
		if ts == nil {
			continue
		}
		for _, inv := range ts.Invariants {
			if pexcept[inv.Label] {
				continue
			}
			env := c.newEnv(fr, st, entry)
			env.self = &v
			env.vars["self"] = v
			t, err := env.evalAssume(inv.E)
			if err != nil {
				c.contractStale("invariant:"+inv.Label, inv.Pos, err, inv.Props)
				continue
			}
			c.sc.assert(t)
		}
	}
}

func (c *FnCtx) proveInvariants(fr *Frame, st *State, cond string, spec *FuncSpec, suffix string) {
	ptargets, pexcept := preservesOf(spec)
	for _, target := range ptargets {
		v, ok := fr.params[target]
		if !ok {
			continue
		}
		ts := c.typeSpecOf(v.Ty)
		if ts == nil {
			continue
		}
		for i, inv := range ts.Invariants {
			if pexcept[inv.Label] {
				continue
			}
			env := c.newEnv(fr, st, c.top.entrySt)
			env.entryPar = true
			env.vars["self"] = v
			t, err := env.evalBool(inv.E)
			if err != nil {
				continue
			}
			c.oblige("invariant", clauseName(inv, i)+suffix, cond, t, inv.Pos, inv.Text, inv.Props)
		}
	}
}

// ---------------------------------------------------------------- modifies

type modTarget struct {
	kind   string // field, elems, map, cell, ghostfield, ghostvar, array
	prefix string // heap array name or prefix
	ref    string
	lo, hi string // elems: absolute index range [lo,hi)
	mt     *types.Map
	ty     types.Type
	name   string
}

func (c *FnCtx) modTargets(env *Env, exprs []*Expr, pos string) []modTarget {
	var out []modTarget
	// expand footprints fp(NAME)
	var expanded []*Expr
	for _, m := range exprs {
		if m.Op == "call" && m.Name == "fp" && len(m.Args) == 1 && m.Args[0].Op == "id" {
			found := false
			pkgs := []string{"ext"}
			if env.pkg != nil {
				pkgs = append([]string{env.pkg.Path()}, pkgs...)
			}
			for _, pk := range pkgs {
				if es, ok := c.eng.specs.Footprints[pk][m.Args[0].Name]; ok {
					expanded = append(expanded, es...)
					found = true
					break
				}
			}
			if !found {
				// footprints are visible across packages by name
				var pks []string
				for pk := range c.eng.specs.Footprints {
					pks = append(pks, pk)
				}
				sort.Strings(pks)
				for _, pk := range pks {
					if es, ok := c.eng.specs.Footprints[pk][m.Args[0].Name]; ok {
						expanded = append(expanded, es...)
						found = true
						break
					}
				}
			}
			if !found {
				c.contractStale("modifies", pos, fmt.Errorf("unknown footprint %s", m.Args[0].Name), nil)
			}
			continue
		}
		expanded = append(expanded, m)
	}
	exprs = expanded
	for _, m := range exprs {
		func() {
			defer func() {
				if r := recover(); r != nil {
					if se, ok := r.(specErr); ok {
						c.contractStale("modifies", pos, se, nil)
						return
					}
					panic(r)
				}
			}()
			switch {
			case m.Op == "call" && m.Name == "elems":
				v := env.eval(m.Args[0])
				if v.K != KSlice {
					fail("%s: elems() of non-slice", pos)
				}
				el := v.Ty.Underlying().(*types.Slice).Elem()
				out = append(out, modTarget{kind: "elems", prefix: elemArrayName(el, ""), ref: v.Fs[0].T, lo: v.Fs[1].T, hi: "(+ " + v.Fs[1].T + " " + v.Fs[3].T + ")", ty: el})
			case m.Op == "call" && m.Name == "mapof":
				v := env.eval(m.Args[0])
				mt, ok := v.Ty.Underlying().(*types.Map)
				if !ok {
					fail("%s: mapof() of non-map", pos)
				}
				out = append(out, modTarget{kind: "map", ref: v.T, mt: mt})
			case m.Op == "call" && m.Name == "heap":
				// heap("F:..."): whole array family by name prefix
				if len(m.Args) == 1 && m.Args[0].Op == "str" {
					out = append(out, modTarget{kind: "array", prefix: m.Args[0].Name})
				}
			case m.Op == "id" && strings.HasPrefix(m.Name, "$"):
				out = append(out, modTarget{kind: "ghostvar", name: m.Name})
			case m.Op == "call" && m.Name == "once":
				l := env.evalLoc(m.Args[0])
				p, _ := pathString(l.Root, l.Path)
				out = append(out, modTarget{kind: "once", prefix: "ONCE:" + typeKey(l.Root) + p, ref: l.Base})
			case m.Op == "call" && m.Name == "chan":
				v := env.eval(m.Args[0])
				out = append(out, modTarget{kind: "chan", ref: v.T})
			case m.Op == "sel" && strings.HasPrefix(m.Name, "$"):
				bv := env.eval(m.Args[0])
				if bv.K == KIface && bv.Ty != nil {
					srt := env.ghostFieldSort(bv.Ty, m.Name)
					if srt == "" {
						fail("%s: ghost field %s not declared", pos, m.Name)
					}
					out = append(out, modTarget{kind: "ghostfield", prefix: ghostArrayName(bv.Ty, m.Name), ref: bv.Fs[1].T, name: srt})
					return
				}
				l := c.ptrToLoc(bv)
				if l == nil {
					fail("%s: bad ghost field target", pos)
				}
				srt := env.ghostFieldSort(l.Root, m.Name)
				if srt == "" {
					fail("%s: ghost field %s not declared", pos, m.Name)
				}
				out = append(out, modTarget{kind: "ghostfield", prefix: ghostArrayName(l.Root, m.Name), ref: bv.T, name: srt})
			case m.Op == "sel":
				l := env.evalLoc(m)
				p, t := pathString(l.Root, l.Path)
				out = append(out, modTarget{kind: "field", prefix: fieldArrayName(l.Root, p), ref: l.Base, ty: t})
			default:
				fail("%s: unsupported modifies target %s", pos, m.String())
			}
		}()
	}
	return out
}

// havocTargets gives fresh contents to the declared targets of a callee.
func (c *FnCtx) havocTargets(st *State, ts []modTarget) {
	for _, t := range ts {
		switch t.kind {
		case "field":
			for _, lf := range leavesOf(t.ty) {
				name := t.prefix + lf.path
				f := c.sc.fresh("mod."+name, lf.sort)
				c.heapStore(st, name, arrSort(lf.sort), t.ref, f)
				c.leafFact(st, "(select "+st.heap[name]+" "+t.ref+")", lf)
			}
			// lock / once state attached to the same path is not touched
		case "elems":
			for _, lf := range leavesOf(t.ty) {
				name := t.prefix + lf.path
				a := c.heapGet(st, name, arr2Sort(lf.sort))
				f := c.sc.fresh("mod."+name, arrSort(lf.sort))
				c.sc.assert("(forall ((k!m Int)) (! (=> (or (< k!m " + t.lo + ") (>= k!m " + t.hi + ")) (= (select " + f + " k!m) (select (select " + a + " " + t.ref + ") k!m))) :pattern ((select " + f + " k!m))))")
				if lf.sort == "Int" && kindOf(lf.ty) == KInt && lf.role == "" {
					if rf := rangeFact("(select "+f+" k!m)", lf.ty); rf != "true" {
						c.sc.assert("(forall ((k!m Int)) (! " + rf + " :pattern ((select " + f + " k!m))))")
					}
				}
				c.heapStore(st, name, arr2Sort(lf.sort), t.ref, f)
			}
		case "map":
			mv, mp, mc := mapNames(t.mt)
			for _, lf := range leavesOf(t.mt.Elem()) {
				f := c.sc.fresh("mod."+mv, arrSort(lf.sort))
				c.heapStore(st, mv+lf.path, arr2Sort(lf.sort), t.ref, f)
			}
			c.heapStore(st, mp, arr2Sort("Bool"), t.ref, c.sc.fresh("mod."+mp, arrSort("Bool")))
			card := c.sc.fresh("mod."+mc, "Int")
			c.sc.assert("(>= " + card + " 0)")
			c.heapStore(st, mc, arrSort("Int"), t.ref, card)
		case "once":
			a := c.heapGet(st, t.prefix, arrSort("Bool"))
			nv := c.sc.fresh("mod.once", "Bool")
			// a once flag never goes back
			c.sc.assert(sImp("(select "+a+" "+t.ref+")", nv))
			c.heapStore(st, t.prefix, arrSort("Bool"), t.ref, nv)
		case "ghostfield":
			c.heapStore(st, t.prefix, arrSort(t.name), t.ref, c.sc.fresh("mod."+t.prefix, t.name))
		case "ghostvar":
			if old, ok := st.ghost[t.name]; ok {
				st.ghost[t.name] = c.havocLike(st, old, "mod."+t.name)
			} else if srt, ok := c.eng.ghostGlobalSort(t.name); ok {
				st.ghost[t.name] = sortVal(c.sc.fresh("mod."+t.name, srt), srt)
			}
		case "array":
			var ns []string
			for n := range c.heapSorts {
				if strings.Contains(n, t.prefix) {
					ns = append(ns, n)
				}
			}
			sort.Strings(ns)
			for _, n := range ns {
				c.heapHavoc(st, n, c.heapSorts[n])
			}
			st.wild = append(st.wild, t.prefix)
		case "chan":
			// a nil channel has no state: chan(nil) modifies nothing
			for _, nm := range []string{"CH:closed", "CH:waited"} {
				a := c.heapGet(st, nm, arrSort("Bool"))
				c.heapStore(st, nm, arrSort("Bool"), t.ref, sIte("(= "+t.ref+" 0)", "(select "+a+" 0)", c.sc.fresh("mod."+nm, "Bool")))
			}
		}
	}
}

func (e *Engine) ghostGlobalSort(name string) (string, bool) {
	if sig, ok := e.specFns[name+".init"]; ok {
		return sig.Ret, true
	}
	return "", false
}

// frameFormula: "every pre-existing location of heap array n outside the declared modifies
// set has its entry value", over the variables r (object) and k (element index).
// ok=false when the array is exempt (declared wholesale, lock state).
func (c *FnCtx) frameFormula(fr *Frame, n, now string, targets []modTarget, r, k string) (string, bool) {
	entry := c.top.entrySt
	was, has := entry.heap[n]
	if !has {
		was = sym(n + "!0")
	}
	if strings.HasPrefix(n, "LK:") || strings.HasPrefix(n, "ONCE:") {
		return "", false
	}
	var allowed []string
	twoLevel := strings.HasPrefix(n, "E:") || strings.HasPrefix(n, "MV:") || strings.HasPrefix(n, "MP:")
	for _, t := range targets {
		switch t.kind {
		case "field":
			if n == t.prefix || strings.HasPrefix(n, t.prefix+".") {
				allowed = append(allowed, "(= "+r+" "+t.ref+")")
			}
		case "ghostfield":
			if n == t.prefix {
				allowed = append(allowed, "(= "+r+" "+t.ref+")")
			}
		case "elems":
			if n == t.prefix || strings.HasPrefix(n, t.prefix+".") {
				allowed = append(allowed, "(and (= "+r+" "+t.ref+") (<= "+t.lo+" "+k+") (< "+k+" "+t.hi+"))")
			}
		case "map":
			mv, mp, mc := mapNames(t.mt)
			if n == mp || n == mc || n == mv || strings.HasPrefix(n, mv+".") {
				allowed = append(allowed, "(= "+r+" "+t.ref+")")
			}
		case "array":
			if strings.Contains(n, t.prefix) {
				return "", false
			}
		case "chan":
			if n == "CH:closed" || n == "CH:waited" {
				allowed = append(allowed, "(and (= "+r+" "+t.ref+") (not (= "+t.ref+" 0)))")
			}
		}
	}
	var goal string
	if twoLevel {
		goal = "(= (select (select " + now + " " + r + ") " + k + ") (select (select " + was + " " + r + ") " + k + "))"
	} else {
		goal = "(= (select " + now + " " + r + ") (select " + was + " " + r + "))"
	}
	pre := sAnd("(<= 0 "+r+")", "(<= "+r+" "+entry.alloc+")", sNot(sOr(allowed...)))
	return sImp(pre, goal), true
}

func (c *FnCtx) entryTargets(fr *Frame, spec *FuncSpec) []modTarget {
	if c.frameTargets != nil {
		return c.frameTargets
	}
	entry := c.top.entrySt
	env := c.newEnv(c.top, entry, entry)
	env.entryPar = true
	c.frameTargets = c.modTargets(env, spec.Modifies, spec.Pos)
	if c.frameTargets == nil {
		c.frameTargets = []modTarget{}
	}
	return c.frameTargets
}

// frameCheck: at a return of a function under contract, every pre-existing
// heap location outside the declared modifies set is unchanged.
func (c *FnCtx) frameCheck(fr *Frame, st *State, cond string, spec *FuncSpec, suffix string) {
	entry := c.top.entrySt
	targets := c.entryTargets(fr, spec)
	var names []string
	for n := range st.heap {
		names = append(names, n)
	}
	sort.Strings(names)
	for _, n := range names {
		now := st.heap[n]
		was, has := entry.heap[n]
		if !has {
			was = sym(n + "!0")
		}
		if now == was {
			continue
		}
		if !c.localTouched[n] && (!strings.HasPrefix(n, "G:") || !strings.HasPrefix(n, "G:~")) {
			// only changed through contracts of callees in other packages: private state of
			// their objects, governed by their own contracts and ghost views
			continue
		}
		r := c.sc.fresh("frame.r", "Int")
		k := c.sc.fresh("frame.k", "Int")
		f, ok := c.frameFormula(fr, n, now, targets, r, k)
		if !ok {
			continue
		}
		c.oblige("frame", n+suffix, cond, f, spec.Pos, "frame: only declared locations of "+n+" change", nil)
	}
	// ghost variables
	for k, v := range st.ghost {
		if !strings.HasPrefix(k, "$") || strings.HasPrefix(k, "$ev.") || strings.HasPrefix(k, "$range.") || strings.HasPrefix(k, "$ret.") {
			continue
		}
		old, has := entry.ghost[k]
		if !has {
			continue
		}
		if strings.Join(flatten(old), ",") == strings.Join(flatten(v), ",") {
			continue
		}
		ok := false
		for _, t := range targets {
			if t.kind == "ghostvar" && t.name == k {
				ok = true
			}
		}
		if !ok {
			c.oblige("frame", k+suffix, cond, c.valEq(old, v), spec.Pos, "frame: ghost "+k+" unchanged", nil)
		}
	}
}

// lockBalance: locks are in the state they had at entry unless declared.
func (c *FnCtx) lockBalance(fr *Frame, st *State, cond string, spec *FuncSpec, suffix string) {
	entry := c.top.entrySt
	env := c.newEnv(fr, entry, entry)
	env.entryPar = true
	type decl struct{ an, base, want string }
	var decls []decl
	add := func(es []*Expr, want string) {
		for _, e := range es {
			func() {
				defer func() {
					if r := recover(); r != nil {
						if _, ok := r.(specErr); !ok {
							panic(r)
						}
					}
				}()
				l := env.evalLoc(e)
				decls = append(decls, decl{lockArrayName(l), l.Base, want})
			}()
		}
	}
	add(spec.Acquires, "1")
	add(spec.Releases, "0")
	var names []string
	for n := range st.heap {
		if strings.HasPrefix(n, "LK:") {
			names = append(names, n)
		}
	}
	sort.Strings(names)
	for _, n := range names {
		now := st.heap[n]
		was, has := entry.heap[n]
		if !has {
			was = sym(n + "!0")
		}
		if now == was {
			continue
		}
		r := c.sc.fresh("lock.r", "Int")
		var exc []string
		for _, d := range decls {
			if d.an == n {
				exc = append(exc, "(= "+r+" "+d.base+")")
				c.oblige("lock", "declared:"+n+suffix, cond, "(= (select "+now+" "+d.base+") "+d.want+")", spec.Pos, "declared lock effect", c.lockProps())
			}
		}
		c.oblige("lock", "balance:"+n+suffix, cond, sImp(sAnd("(<= "+r+" "+entry.alloc+")", sNot(sOr(exc...))), "(= (select "+now+" "+r+") (select "+was+" "+r+"))"), spec.Pos, "locks released as found", c.lockProps())
	}
}

// ---------------------------------------------------------------- contract application at a call

func calleeShort(e *Engine, callee *ssa.Function, name string) string {
	if callee != nil && callee.Pkg != nil && strings.HasPrefix(callee.Pkg.Pkg.Path(), e.modPath) {
		return shortFuncName(callee, e.modPath)
	}
	n := name
	n = strings.ReplaceAll(n, e.modPath+"/store/", "")
	n = strings.ReplaceAll(n, e.modPath+"/", "")
	return n
}

func (c *FnCtx) applyContract(bc *blockCtx, spec *FuncSpec, cc *ssa.CallCommon, callee *ssa.Function, name string, args []Val, pos token.Pos) Val {
	short := calleeShort(c.eng, callee, name)
	occ, known := bc.fr.occOf[cc]
	if !known {
		occ = bc.fr.callOcc[short]
		bc.fr.callOcc[short] = occ + 1
	}
	if spec.Ext {
		c.assumed[short] = true
	} else if spec.Trusted != "" {
		c.assumed[short+" (trusted, body not verified against it: "+spec.Trusted+")"] = true
	}
	sig := cc.Signature()
	fnames := formalNames(spec, sig, callee, len(args))
	// callee package for name resolution in its contract
	var pkg *types.Package
	if callee != nil && callee.Pkg != nil {
		pkg = callee.Pkg.Pkg
	} else if spec.PkgPath != "" {
		pkg = c.eng.tpkgs[spec.PkgPath]
	}
	if c.inTopScope(bc.fr) {
		c.callArgs = args
		c.runGhostAt(bc, Anchor{Kind: "before", Callee: short, Occ: occ})
		c.callArgs = nil
	}
	pre := bc.st.clone()
	mkEnv := func(st *State) *Env {
		env := &Env{c: c, st: st, old: pre, vars: map[string]Val{}, pkg: pkg, macros: spec.Macros}
		for i, n := range fnames {
			if i < len(args) && n != "_" {
				env.vars[n] = args[i]
			}
		}
		return env
	}
	label := fmt.Sprintf("%s#%d", short, occ)
	foreign := spec.PkgPath != "" && c.top != nil && c.top.fn.Pkg != nil && spec.PkgPath != c.top.fn.Pkg.Pkg.Path()
	for i, r := range spec.Requires {
		if r.Local && foreign {
			c.assumed["concrete-layer precondition of "+short+" (not visible across packages): "+r.Text] = true
			continue
		}
		env := mkEnv(bc.st)
		env.old = nil
		t, err := env.evalBool(r.E)
		if err != nil {
			c.contractStale("call:"+label+":requires:"+clauseName(r, i), r.Pos, err, nil)
			continue
		}
		if c.dry == 0 {
			o := c.oblige("call", label+":requires:"+clauseName(r, i), bc.reach, t, c.eng.posOf(pos), "precondition of "+short+": "+r.Text, nil)
			_ = o
		}
	}
	for _, h := range spec.Holds {
		env := mkEnv(bc.st)
		t, err := c.heldTerm(env, h)
		if err != nil {
			c.contractStale("call:"+label+":holds", spec.Pos, err, nil)
			continue
		}
		if c.dry == 0 && !c.isExclusive(bc.fr) {
			c.oblige("lock", "call:"+label+":holds:"+h.String(), bc.reach, t, c.eng.posOf(pos), "callee requires lock "+h.String(), c.lockProps())
		}
	}
	// callee preserves an object invariant: establish it before the call
	ctargets, cexcept := preservesOf(spec)
	for _, target := range ctargets {
		env := mkEnv(bc.st)
		v, ok := env.vars[target]
		if !ok {
			continue
		}
		if ts := c.typeSpecOf(v.Ty); ts != nil {
			if bc.fr.fn.Pkg != nil && ts.PkgPath != bc.fr.fn.Pkg.Pkg.Path() {
				// encapsulation: the object's fields are not accessible from this package, so its
				// invariant can only be broken while one of its own methods runs; it is assumed here
				c.assumed["invariant of "+ts.Name+" (encapsulated: holds between calls of its methods)"] = true
				for _, inv := range ts.Invariants {
					if cexcept[inv.Label] {
						continue
					}
					e2 := mkEnv(bc.st)
					e2.vars["self"] = v
					if t, err := e2.evalAssume(inv.E); err == nil {
						c.sc.assert(sImp(bc.reach, t))
					}
				}
				continue
			}
			for i, inv := range ts.Invariants {
				if cexcept[inv.Label] {
					continue
				}
				e2 := mkEnv(bc.st)
				e2.vars["self"] = v
				t, err := e2.evalBool(inv.E)
				if err != nil {
					continue
				}
				if c.dry == 0 {
					c.oblige("call", label+":invariant:"+clauseName(inv, i), bc.reach, t, c.eng.posOf(pos), "object invariant before calling "+short, inv.Props)
				}
			}
		}
	}
	// effects
	st := bc.st
	env0 := mkEnv(pre)
	targets := c.modTargets(env0, append(append([]*Expr(nil), spec.Modifies...), spec.TrustedModifies...), spec.Pos)
	if !spec.Pure {
		// the callee may allocate: values it stores may be newer than the pre-call allocation mark
		na := c.sc.fresh("alloc", "Int")
		c.sc.assert("(>= " + na + " " + st.alloc + ")")
		st.alloc = na
	}
	c.foreignHavoc = foreign
	c.havocTargets(st, targets)
	c.foreignHavoc = false
	if len(spec.TrustedEnsures) > 0 {
		c.assumed[short+" (abstract clauses; "+spec.TrustedWhy+")"] = true
	}
	// lock effects
	for _, a := range spec.Acquires {
		c.setLock(mkEnv(pre), st, a, "1", bc, pos, short)
	}
	for _, a := range spec.Releases {
		c.setLock(mkEnv(pre), st, a, "0", bc, pos, short)
	}
	// results
	var res Val
	rt := resultType(cc)
	if rt == nil {
		res = Val{K: KUnit}
	} else {
		res = c.freshVal(st, rt, "r."+short)
	}
	rn := resultNames(spec, sig)
	post := mkEnv(st)
	switch {
	case res.K == KTuple:
		for i, f := range res.Fs {
			if i < len(rn) {
				post.vars[rn[i]] = f
			}
		}
	case res.K != KUnit && len(rn) == 1:
		post.vars[rn[0]] = res
	}
	for _, fname := range spec.Fresh {
		if v, ok := post.vars[fname]; ok {
			t := v.T
			if v.K == KSlice {
				t = v.Fs[0].T
			}
			c.sc.assert(sImp(bc.reach, sOr("(= "+t+" 0)", "(> "+t+" "+pre.alloc+")")))
		}
	}
	for i, en := range append(append([]Clause(nil), spec.Ensures...), spec.TrustedEnsures...) {
		if strings.Contains(en.Text, "event(") {
			// event counters count the calls made by the function that owns the contract; a clause
			// about them says nothing about the caller's counters and is not exported
			continue
		}
		t, err := post.evalAssume(en.E)
		if err != nil {
			c.contractStale("call:"+label+":ensures:"+clauseName(en, i), en.Pos, err, nil)
			continue
		}
		c.sc.assert(sImp(bc.reach, t))
	}
	for _, target := range ctargets {
		v, ok := post.vars[target]
		if !ok {
			continue
		}
		if ts := c.typeSpecOf(v.Ty); ts != nil {
			for _, inv := range ts.Invariants {
				if cexcept[inv.Label] {
					continue
				}
				e2 := mkEnv(st)
				e2.vars["self"] = v
				if t, err := e2.evalAssume(inv.E); err == nil {
					c.sc.assert(sImp(bc.reach, t))
				}
			}
		}
	}
	c.ghostEvent(bc, "call:"+short)
	if c.inTopScope(bc.fr) {
		if res.K == KTuple {
			c.callRes = res.Fs
		} else if res.K != KUnit {
			c.callRes = []Val{res}
		}
		c.callArgs = args
		c.runGhostAt(bc, Anchor{Kind: "after", Callee: short, Occ: occ})
		c.callRes = nil
		c.callArgs = nil
	}
	return res
}

func (c *FnCtx) setLock(env *Env, st *State, e *Expr, val string, bc *blockCtx, pos token.Pos, short string) {
	defer func() {
		if r := recover(); r != nil {
			if se, ok := r.(specErr); ok {
				c.contractStale("call:"+short+":lock", c.eng.posOf(pos), se, nil)
				return
			}
			panic(r)
		}
	}()
	l := env.evalLoc(e)
	an := lockArrayName(l)
	c.heapStore(st, an, arrSort("Int"), l.Base, val)
}

// isExclusive: the access happens in code declared single-threaded (the function itself,
// or the function it was inlined into).
func (c *FnCtx) isExclusive(fr *Frame) bool {
	for f := fr; f != nil; f = f.parent {
		if f.spec != nil && f.spec.Exclusive {
			return true
		}
	}
	return false
}

// checkGuard: guarded_by discipline (C16) at a field access.
func (c *FnCtx) checkGuard(bc *blockCtx, l *Loc, write bool, pos token.Pos) {
	if l.Kind != LField || len(l.Path) == 0 || c.dry > 0 {
		return
	}
	n, ok := l.Root.(*types.Named)
	if !ok || n.Obj().Pkg() == nil {
		return
	}
	ts := c.eng.specs.Types[n.Obj().Pkg().Path()+"::"+n.Obj().Name()]
	if ts == nil || len(ts.Guarded) == 0 {
		return
	}
	if c.isExclusive(bc.fr) {
		return
	}
	st, ok := l.Root.Underlying().(*types.Struct)
	if !ok {
		return
	}
	fname := st.Field(l.Path[0]).Name()
	if c.spec != nil {
		for _, u := range c.spec.Unguarded {
			if u == n.Obj().Name()+"."+fname {
				return
			}
		}
	}
	for _, g := range ts.Guarded {
		hit := false
		for _, f := range g.Fields {
			if f == fname {
				hit = true
			}
		}
		if !hit {
			continue
		}
		lockExpr := g.Write
		if !write && g.Read != "" {
			lockExpr = g.Read
		}
		goal := c.guardTerm(bc.st, l, lockExpr, write)
		// an object allocated by this call is not shared yet
		goal = sOr("(> "+l.Base+" "+c.top.entrySt.alloc+")", goal)
		kind := "read"
		if write {
			kind = "write"
		}
		key := fmt.Sprintf("guarded:%s.%s:%s", n.Obj().Name(), fname, kind)
		cnt := c.safetyCtr[key]
		c.safetyCtr[key] = cnt + 1
		c.oblige("lock", fmt.Sprintf("%s:%d", key, cnt), bc.reach, goal, c.eng.posOf(pos), "field "+fname+" guarded by "+lockExpr, c.lockProps())
	}
}

// guardTerm interprets a lock expression: names of mutex fields of the same
// object combined with & (all) and | (any); suffix .R means "read or write held".
func (c *FnCtx) guardTerm(st *State, l *Loc, expr string, write bool) string {
	orParts := strings.Split(expr, "|")
	var ors []string
	for _, op := range orParts {
		var ands []string
		for _, a := range strings.Split(op, "&") {
			a = strings.TrimSpace(a)
			readOK := false
			if strings.HasSuffix(a, ".R") {
				readOK = true
				a = strings.TrimSuffix(a, ".R")
			}
			an := "LK:" + typeKey(l.Root) + "." + a
			arr := c.heapGet(st, an, arrSort("Int"))
			t := "(select " + arr + " " + l.Base + ")"
			if readOK {
				ands = append(ands, "(or (= "+t+" 1) (= "+t+" 2))")
			} else {
				ands = append(ands, "(= "+t+" 1)")
			}
		}
		ors = append(ors, sAnd(ands...))
	}
	return sOr(ors...)
}
