package main

// Symbolic execution of one SSA function (naive form) against its contract.

import (
	"fmt"
	"go/constant"
	"go/token"
	"go/types"
	"sort"
	"strings"

	"golang.org/x/tools/go/ssa"
)

type Obligation struct {
	Name   string
	Kind   string // requires, ensures, loop-established, loop-preserved, safety, assert, frame, invariant, canary, lemma, lock
	Func   string
	Props  []string
	Mark   int    // script prefix length
	Cond   string // path condition
	Goal   string
	Pos    string
	Text   string
	Script *Script
	Canary bool // must NOT be provable
	// results
	Result  SolverResult
	All     []SolverResult
	File    string
	Skipped string
	// block canaries (thorough tier): a block that is unreachable under the contracts is an alarm
	// only if a contract obligation (assert, ensures, invariant) was generated inside it
	BlockCanary    bool
	HasContractObl bool
	// text of a counterexample replay on the real code (replay.go)
	ReplayNote string
}

type cellKey struct {
	frame int
	v     ssa.Value
}

type deferEntry struct {
	instr  *ssa.Defer
	frame  *Frame
	active string
	args   []Val
	fnVal  Val
	wide   bool // registered by earlier iterations of a loop: effects applied wholesale at exit
}

type State struct {
	wild   []string // substrings of heap-array names havoced wholesale so far (for lazily declared arrays)
	cells  map[cellKey]Val
	heap   map[string]string
	alloc  string
	ghost  map[string]Val
	defers []deferEntry
}

func (s *State) clone() *State {
	n := &State{cells: make(map[cellKey]Val, len(s.cells)), heap: make(map[string]string, len(s.heap)), alloc: s.alloc, ghost: make(map[string]Val, len(s.ghost))}
	for k, v := range s.cells {
		n.cells[k] = v
	}
	for k, v := range s.heap {
		n.heap[k] = v
	}
	for k, v := range s.ghost {
		n.ghost[k] = v
	}
	n.defers = append([]deferEntry(nil), s.defers...)
	n.wild = append([]string(nil), s.wild...)
	return n
}

type Frame struct {
	id      int
	fn      *ssa.Function
	spec    *FuncSpec
	regs    map[ssa.Value]Val
	params  map[string]Val // entry values by name
	results map[string]Val // set at return
	parent  *Frame
	depth   int
	loops   []*loopInfo
	freeVar map[*ssa.FreeVar]Val
	callOcc map[string]int
	occOf   map[*ssa.CallCommon]int
	entrySt *State
}

type loopInfo struct {
	wholeNames []string
	lockNames  []string
	ord        int
	header     *ssa.BasicBlock
	blocks     map[*ssa.BasicBlock]bool
	spec       *LoopSpec
}

type exitInfo struct {
	ret     *ssa.Return
	st      *State
	cond    string
	results []Val
}

type edgeIn struct {
	st   *State
	cond string
}

type FnCtx struct {
	eng            *Engine
	fn             *ssa.Function
	spec           *FuncSpec
	sc             *Script
	obls           []*Obligation
	heapSorts      map[string]string
	notes          map[string]bool
	unsup          []string
	frameCtr       int
	safetyCtr      map[string]int
	top            *Frame
	assumed        map[string]bool // callee contracts used (for trusted base)
	inlined        map[string]bool
	deriv          map[string]derivInfo
	lockInit       map[string][][2]string
	callRes        []Val
	retRes         map[string]Val
	callArgs       []Val
	frameTargets   []modTarget
	foreignHavoc   bool
	localTouched   map[string]bool
	dry            int
	noFacts        int
	qfacts         [][]string
	factBase       string
	factAlloc      string
	masks          map[string]string // term -> shift term s, for (2^s - 1)
	pow2s          map[string]string // term -> s, for 2^s
	verAlloc       map[string]string // heap-array version -> allocation mark when it was created
	anchorSeen     map[string]bool   // anchors (call sites, loop heads/latches) reached in the top frame
	curBlockCanary *Obligation
	boxes          map[string]Val
	nopanic        bool
	sweep          bool // zero-annotation sweep mode: loops without invariants allowed
	blockCanaries  bool
	lockOnly       bool // only the lock-discipline obligations of this function are claimed (C16 sweep)
	funcName       string
	lockDecl       map[string]*GuardDecl
}

func (c *FnCtx) note(s string) { c.notes[s] = true }
func (c *FnCtx) unsupported(s string) {
	for _, u := range c.unsup {
		if u == s {
			return
		}
	}
	c.unsup = append(c.unsup, s)
}

func shortFuncName(f *ssa.Function, modPath string) string {
	k := fnKey(f)
	k = strings.TrimPrefix(k, modPath)
	k = strings.TrimPrefix(k, "/")
	k = strings.Replace(k, "::", ".", 1)
	if strings.HasPrefix(k, ".") {
		k = "storethehash" + k
	}
	// store/index.Index.Put -> index.Index.Put
	if i := strings.LastIndex(k, "/"); i >= 0 {
		k = k[i+1:]
	}
	switch {
	case strings.HasPrefix(k, "multihash."):
		k = "mhprimary." + strings.TrimPrefix(k, "multihash.")
	case strings.HasPrefix(k, "cid."):
		k = "cidprimary." + strings.TrimPrefix(k, "cid.")
	}
	return k
}

// ---------------------------------------------------------------- heap

func (c *FnCtx) heapGet(st *State, name, sort string) string {
	if v, ok := st.heap[name]; ok {
		return v
	}
	if old, ok := c.heapSorts[name]; ok && old != sort {
		panic(fmt.Sprintf("heap array %s used at sorts %s and %s", name, old, sort))
	}
	c.heapSorts[name] = sort
	_, already := c.sc.declared[sym(name+"!0")]
	v := c.sc.declare(name+"!0", sort)
	if !already && strings.HasPrefix(name, "LK:") {
		// locks held by this thread at entry: none, except those declared by `holds`
		init := "((as const (Array Int Int)) 0)"
		for _, li := range c.lockInit[name] {
			init = "(store " + init + " " + li[0] + " " + li[1] + ")"
		}
		c.sc.assert(sEq(v, init))
	}
	for _, w := range st.wild {
		if strings.Contains(name, w) && !(c.sweep && strings.HasPrefix(name, "LK:")) {
			// the array was havoced wholesale before it was first mentioned
			v = c.sc.fresh(name, sort)
			c.verAlloc[v] = st.alloc
			break
		}
	}
	st.heap[name] = v
	// all states share the initial version by name, so no propagation needed
	return v
}

func (c *FnCtx) heapSet(st *State, name, sort, term string) {
	c.heapGet(st, name, sort)
	// name the new version to keep terms small
	n := c.sc.fresh(name, sort)
	c.sc.assert(sEq(n, term))
	st.heap[name] = n
	c.verAlloc[n] = st.alloc
}

// heapStore writes one object-level entry of a heap array and records the
// derivation (new version = old version with entry `ref` replaced), which the
// loop rule uses to havoc point-wise instead of whole arrays.
func (c *FnCtx) heapStore(st *State, name, sort, ref, val string) {
	if !c.foreignHavoc {
		c.localTouched[name] = true
	}
	old := c.heapGet(st, name, sort)
	n := c.sc.fresh(name, sort)
	c.sc.assert(sEq(n, "(store "+old+" "+ref+" "+val+")"))
	st.heap[name] = n
	c.verAlloc[n] = st.alloc
	c.deriv[n] = derivInfo{parents: []string{old}, refs: []string{ref}}
}

type derivInfo struct {
	parents []string
	refs    []string
}

func (c *FnCtx) heapHavoc(st *State, name, sort string) string {
	if !c.foreignHavoc && c.dry == 0 {
		c.localTouched[name] = true
	}
	c.heapGet(st, name, sort)
	n := c.sc.fresh(name, sort)
	st.heap[name] = n
	c.verAlloc[n] = st.alloc
	return n
}

func arrSort(s string) string  { return "(Array Int " + s + ")" }
func arr2Sort(s string) string { return "(Array Int (Array Int " + s + "))" }

func fieldArrayName(root types.Type, path string) string {
	return "F:" + typeKey(root) + path
}

func elemArrayName(elem types.Type, path string) string {
	return "E:" + typeKey(elem) + path
}

func cellArrayName(t types.Type, path string) string {
	return "C:" + typeKey(t) + path
}

// pathString gives the leaf-path prefix for a field index path from root.
func pathString(root types.Type, path []int) (string, types.Type) {
	t := root
	s := ""
	for _, i := range path {
		switch u := t.Underlying().(type) {
		case *types.Struct:
			s += "." + u.Field(i).Name()
			t = u.Field(i).Type()
		case *types.Array:
			s += fmt.Sprintf(".%d", i)
			t = u.Elem()
		default:
			return s + ".?", t
		}
	}
	return s, t
}

func (c *FnCtx) readLoc(st *State, l *Loc) Val {
	switch l.Kind {
	case LCell:
		v, ok := st.cells[cellKey{l.Frame, l.Cell}]
		if !ok {
			return poison("read of cell not in scope: " + l.Cell.Name())
		}
		for _, i := range l.Path {
			if (v.K != KStruct && v.K != KArray) || i >= len(v.Fs) {
				return poison("bad path into cell")
			}
			v = v.Fs[i]
		}
		return v
	case LField:
		p, t := pathString(l.Root, l.Path)
		c.factBase, c.factAlloc = l.Base, st.alloc
		defer func() { c.factBase = "" }()
		return c.sliceFacts(buildVal(t, func(lf leaf) string {
			a := c.heapGet(st, fieldArrayName(l.Root, p+lf.path), arrSort(lf.sort))
			term := "(select " + a + " " + l.Base + ")"
			c.leafFact(st, term, lf)
			return term
		}))
	case LElem:
		p, t := pathString(l.Root, l.Path)
		c.factBase, c.factAlloc = l.Base, st.alloc
		defer func() { c.factBase = "" }()
		return c.sliceFacts(buildVal(t, func(lf leaf) string {
			a := c.heapGet(st, elemArrayName(l.Root, p+lf.path), arr2Sort(lf.sort))
			term := "(select (select " + a + " " + l.Base + ") " + l.Idx + ")"
			c.leafFact(st, term, lf)
			return term
		}))
	case LHeap:
		c.factBase, c.factAlloc = l.Base, st.alloc
		defer func() { c.factBase = "" }()
		return c.sliceFacts(buildVal(l.Ty, func(lf leaf) string {
			a := c.heapGet(st, cellArrayName(l.Ty, lf.path), arrSort(lf.sort))
			term := "(select " + a + " " + l.Base + ")"
			c.leafFact(st, term, lf)
			return term
		}))
	}
	return poison("bad loc")
}

// leafFact asserts the typing fact of a term read from the heap.
func (c *FnCtx) fact(f string) {
	if c.noFacts > 0 {
		// the term mentions a bound variable: the fact becomes a hypothesis of the quantifier body.
		// Heap contents are only well-typed at allocated objects, so the fact is guarded by
		// "the object read from is allocated" (factBase is set by the read in progress).
		if c.factBase != "" {
			f = sImp("(<= "+c.factBase+" "+c.factAlloc+")", f)
		}
		c.qfacts[len(c.qfacts)-1] = append(c.qfacts[len(c.qfacts)-1], f)
		return
	}
	c.sc.assert(f)
}

func (c *FnCtx) leafFact(st *State, term string, lf leaf) {
	if lf.sort != "Int" {
		return
	}
	switch lf.role {
	case "":
		switch kindOf(lf.ty) {
		case KInt:
			if f := rangeFact(term, lf.ty); f != "true" {
				c.fact(f)
			}
		case KRef, KFunc:
			c.fact(fmt.Sprintf("(and (<= 0 %s) (<= %s %s))", term, term, c.boundFor(st, term)))
		case KStr:
			c.fact(fmt.Sprintf("(<= 0 %s)", term))
		}
	case "arr":
		c.fact(fmt.Sprintf("(and (<= 0 %s) (<= %s %s))", term, term, c.boundFor(st, term)))
	case "off", "tag":
		c.fact(fmt.Sprintf("(<= 0 %s)", term))
	case "pay":
		c.fact(fmt.Sprintf("(<= %s %s)", term, c.boundFor(st, term)))
	case "len":
		c.fact(fmt.Sprintf("(<= 0 %s)", term))
	}
}

// boundFor gives the allocation mark that bounds a reference read from the heap: every entry of
// a heap-array version refers to an object that existed when that version was created (the
// mark only grows, and a version is created by a store of an existing reference, or by a havoc
// after the callee's or loop's allocations were accounted for). Unknown terms get the current mark.
func (c *FnCtx) boundFor(st *State, term string) string {
	t := term
	for i := 0; i < 2 && strings.HasPrefix(t, "(select "); i++ {
		t = t[len("(select "):]
	}
	if t == term {
		return st.alloc
	}
	var symb string
	if strings.HasPrefix(t, "|") {
		if j := strings.Index(t[1:], "|"); j >= 0 {
			symb = t[:j+2]
		}
	} else if j := strings.IndexAny(t, " )"); j > 0 {
		symb = t[:j]
	}
	if symb == "" || len(t) <= len(symb)+1 {
		return st.alloc
	}
	mark := ""
	if strings.HasSuffix(symb, "!0") || strings.HasSuffix(symb, "!0|") {
		if _, isHeap := c.sc.declared[symb]; isHeap && c.top != nil && c.top.entrySt != nil {
			mark = c.top.entrySt.alloc
		}
	}
	if a, ok := c.verAlloc[symb]; ok {
		mark = a
	}
	if mark == "" || mark == st.alloc {
		return st.alloc
	}
	// the entry must belong to an object that already existed at the mark: the contents of
	// objects allocated later by a callee are not described by this version
	base := firstSexpr(t[len(symb)+1:])
	if base == "" {
		return st.alloc
	}
	return "(ite (<= " + base + " " + mark + ") " + mark + " " + st.alloc + ")"
}

// firstSexpr returns the first s-expression (atom or parenthesised term) at the start of s.
func firstSexpr(s string) string {
	d := 0
	inq := false
	for i, ch := range s {
		if ch == '|' {
			inq = !inq
			continue
		}
		if inq {
			continue
		}
		switch ch {
		case '(':
			d++
		case ')':
			if d == 0 {
				return s[:i]
			}
			d--
			if d == 0 {
				return s[:i+1]
			}
		case ' ':
			if d == 0 {
				return s[:i]
			}
		}
	}
	return ""
}

// sliceFacts asserts len <= cap <= 2^62 for every slice inside a value read from the heap.
func (c *FnCtx) sliceFacts(v Val) Val {
	switch v.K {
	case KSlice:
		c.fact(fmt.Sprintf("(and (<= %s %s) (<= %s %s))", v.Fs[2].T, v.Fs[3].T, v.Fs[3].T, pow2(62)))
	case KStruct, KArray, KTuple:
		for _, f := range v.Fs {
			c.sliceFacts(f)
		}
	}
	return v
}

func (c *FnCtx) writeLoc(st *State, l *Loc, v Val) {
	switch l.Kind {
	case LCell:
		key := cellKey{l.Frame, l.Cell}
		if len(l.Path) == 0 {
			st.cells[key] = v
			return
		}
		root, ok := st.cells[key]
		if !ok {
			c.unsupported("write into cell not in scope: " + l.Cell.Name())
			return
		}
		st.cells[key] = setPath(root, l.Path, v)
	case LField:
		p, t := pathString(l.Root, l.Path)
		ls := flatten(v)
		for i, lf := range leavesOf(t) {
			if i >= len(ls) {
				break
			}
			name := fieldArrayName(l.Root, p+lf.path)
			c.heapStore(st, name, arrSort(lf.sort), l.Base, ls[i])
		}
	case LElem:
		p, t := pathString(l.Root, l.Path)
		ls := flatten(v)
		for i, lf := range leavesOf(t) {
			if i >= len(ls) {
				break
			}
			name := elemArrayName(l.Root, p+lf.path)
			a := c.heapGet(st, name, arr2Sort(lf.sort))
			c.heapStore(st, name, arr2Sort(lf.sort), l.Base, "(store (select "+a+" "+l.Base+") "+l.Idx+" "+ls[i]+")")
		}
	case LHeap:
		ls := flatten(v)
		for i, lf := range leavesOf(l.Ty) {
			if i >= len(ls) {
				break
			}
			name := cellArrayName(l.Ty, lf.path)
			c.heapStore(st, name, arrSort(lf.sort), l.Base, ls[i])
		}
	}
}

func setPath(root Val, path []int, v Val) Val {
	if len(path) == 0 {
		return v
	}
	n := root
	n.Fs = append([]Val(nil), root.Fs...)
	if path[0] < len(n.Fs) {
		n.Fs[path[0]] = setPath(n.Fs[path[0]], path[1:], v)
	}
	return n
}

// freshVal declares a fresh value of Go type t.
func (c *FnCtx) freshVal(st *State, t types.Type, prefix string) Val {
	v := buildVal(t, func(lf leaf) string {
		return c.sc.fresh(prefix+lf.path, lf.sort)
	})
	alloc := ""
	if st != nil {
		alloc = st.alloc
	}
	for _, f := range typeFacts(v, alloc) {
		c.sc.assert(f)
	}
	return v
}

func (c *FnCtx) allocRef(st *State) string {
	n := c.sc.fresh("alloc", "Int")
	c.sc.assert(fmt.Sprintf("(= %s (+ %s 1))", n, st.alloc))
	st.alloc = n
	return n
}

// ---------------------------------------------------------------- obligations

func (c *FnCtx) oblige(kind, label, cond, goal, pos, text string, props []string) *Obligation {
	name := c.funcName + "#" + kind
	if label != "" {
		name += ":" + label
	}
	// unique
	base := name
	for i := 2; ; i++ {
		dup := false
		for _, o := range c.obls {
			if o.Name == name {
				dup = true
				break
			}
		}
		if !dup {
			break
		}
		name = fmt.Sprintf("%s~%d", base, i)
	}
	if props == nil && c.spec != nil {
		props = c.spec.Props
	}
	o := &Obligation{Name: name, Kind: kind, Func: c.funcName, Props: props, Mark: c.sc.mark(), Cond: cond, Goal: goal, Pos: pos, Text: text, Script: c.sc}
	if c.curBlockCanary != nil && (kind == "assert" || kind == "ensures" || kind == "invariant" || strings.Contains(kind, ":preserved") || strings.Contains(kind, ":established") || strings.HasPrefix(kind, "loop")) {
		c.curBlockCanary.HasContractObl = true
	}
	c.obls = append(c.obls, o)
	return o
}

func (c *FnCtx) safety(kind, cond, goal string, pos token.Pos) {
	if goal == "true" {
		return
	}
	n := c.safetyCtr[kind]
	c.safetyCtr[kind] = n + 1
	c.oblige("safety", fmt.Sprintf("%s:%d", kind, n), cond, goal, c.eng.posOf(pos), kind, nil)
}

// ---------------------------------------------------------------- merge

func (c *FnCtx) merge(ins []edgeIn) (*State, string) {
	if len(ins) == 1 {
		return ins[0].st, ins[0].cond
	}
	var conds []string
	for _, in := range ins {
		conds = append(conds, in.cond)
	}
	reach := c.sc.fresh("reach", "Bool")
	c.sc.assert(sEq(reach, sOr(conds...)))
	out := &State{cells: map[cellKey]Val{}, heap: map[string]string{}, ghost: map[string]Val{}}
	{
		seen := map[string]bool{}
		for _, in := range ins {
			for _, w := range in.st.wild {
				if !seen[w] {
					seen[w] = true
					out.wild = append(out.wild, w)
				}
			}
		}
	}
	mergeTerm := func(prefix, sort string, terms []string) string {
		same := true
		for _, t := range terms[1:] {
			if t != terms[0] {
				same = false
				break
			}
		}
		if same {
			return terms[0]
		}
		n := c.sc.fresh(prefix, sort)
		for i, t := range terms {
			c.sc.assert(sImp(conds[i], sEq(n, t)))
		}
		return n
	}
	mergeVal := func(prefix string, vs []Val) Val {
		for _, v := range vs {
			if v.K == KPoison {
				return v
			}
		}
		p := vs[0]
		for _, v := range vs[1:] {
			if v.K != p.K {
				return poison("merge of different kinds")
			}
		}
		if p.K == KLoc {
			for _, v := range vs[1:] {
				if v.Loc.String() != p.Loc.String() {
					return poison("merge of different static locations")
				}
			}
			return p
		}
		sorts := leafSorts(p)
		var cols [][]string
		for _, v := range vs {
			f := flatten(v)
			if len(f) != len(sorts) {
				return poison("merge of different shapes")
			}
			cols = append(cols, f)
		}
		merged := make([]string, len(sorts))
		for i := range sorts {
			var ts []string
			for _, col := range cols {
				ts = append(ts, col[i])
			}
			merged[i] = mergeTerm(prefix, sorts[i], ts)
		}
		r, _ := rebuild(p, merged)
		if p.K == KFunc {
			for _, v := range vs[1:] {
				if v.Fn != p.Fn {
					r.Fn = nil
					r.Binds = nil
				}
			}
		}
		return r
	}
	// cells present in all states
	for k := range ins[0].st.cells {
		var vs []Val
		ok := true
		for _, in := range ins {
			v, has := in.st.cells[k]
			if !has {
				ok = false
				break
			}
			vs = append(vs, v)
		}
		if ok {
			out.cells[k] = mergeVal("m."+k.v.Name(), vs)
		}
	}
	names := map[string]bool{}
	for _, in := range ins {
		for n := range in.st.heap {
			names[n] = true
		}
	}
	var sorted []string
	for n := range names {
		sorted = append(sorted, n)
	}
	sort.Strings(sorted)
	for _, n := range sorted {
		var ts []string
		for _, in := range ins {
			ts = append(ts, c.heapGet(in.st, n, c.heapSorts[n]))
		}
		mt := mergeTerm(n, c.heapSorts[n], ts)
		out.heap[n] = mt
		if _, isNew := c.deriv[mt]; !isNew {
			diff := false
			for _, t := range ts {
				if t != mt {
					diff = true
				}
			}
			if diff {
				c.deriv[mt] = derivInfo{parents: ts}
			}
		}
	}
	var al []string
	for _, in := range ins {
		al = append(al, in.st.alloc)
	}
	out.alloc = mergeTerm("alloc", "Int", al)
	gkeys := map[string]bool{}
	for _, in := range ins {
		for k := range in.st.ghost {
			gkeys[k] = true
		}
	}
	var gsorted []string
	for k := range gkeys {
		gsorted = append(gsorted, k)
	}
	sort.Strings(gsorted)
	for _, k := range gsorted {
		var vs []Val
		ok := true
		for _, in := range ins {
			v, has := in.st.ghost[k]
			if !has {
				if strings.HasPrefix(k, "$ev.") {
					v = mkInt("0", nil) // event counters start at zero
				} else {
					ok = false
					break
				}
			}
			vs = append(vs, v)
		}
		if ok {
			out.ghost[k] = mergeVal("g."+k, vs)
		}
	}
	// defers: union by instruction
	type deferKey struct {
		instr *ssa.Defer
		wide  bool
	}
	seen := map[deferKey]bool{}
	for _, in := range ins {
		for _, d := range in.st.defers {
			if seen[deferKey{d.instr, d.wide}] {
				continue
			}
			seen[deferKey{d.instr, d.wide}] = true
			var acts []string
			var argCols [][]Val
			for _, in2 := range ins {
				found := false
				for _, d2 := range in2.st.defers {
					if d2.instr == d.instr && d2.wide == d.wide {
						acts = append(acts, d2.active)
						argCols = append(argCols, d2.args)
						found = true
					}
				}
				if !found {
					acts = append(acts, "false")
					argCols = append(argCols, d.args)
				}
			}
			nd := d
			nd.active = mergeTerm("defer.active", "Bool", acts)
			nd.args = make([]Val, len(d.args))
			for i := range d.args {
				var vs []Val
				for _, col := range argCols {
					vs = append(vs, col[i])
				}
				nd.args[i] = mergeVal("defer.arg", vs)
			}
			out.defers = append(out.defers, nd)
		}
	}
	return out, reach
}

// ---------------------------------------------------------------- CFG helpers

func isBackEdge(from, to *ssa.BasicBlock) bool {
	return to.Dominates(from)
}

func findLoops(fn *ssa.Function) []*loopInfo {
	heads := map[*ssa.BasicBlock]*loopInfo{}
	for _, b := range fn.Blocks {
		for _, s := range b.Succs {
			if isBackEdge(b, s) {
				li := heads[s]
				if li == nil {
					li = &loopInfo{header: s, blocks: map[*ssa.BasicBlock]bool{s: true}}
					heads[s] = li
				}
				// natural loop: all blocks that reach b without passing s
				var stack []*ssa.BasicBlock
				if !li.blocks[b] {
					li.blocks[b] = true
					stack = append(stack, b)
				}
				for len(stack) > 0 {
					x := stack[len(stack)-1]
					stack = stack[:len(stack)-1]
					for _, p := range x.Preds {
						if !li.blocks[p] {
							li.blocks[p] = true
							stack = append(stack, p)
						}
					}
				}
			}
		}
	}
	var out []*loopInfo
	for _, li := range heads {
		out = append(out, li)
	}
	sort.Slice(out, func(i, j int) bool { return out[i].header.Index < out[j].header.Index })
	for i, li := range out {
		li.ord = i
	}
	return out
}

func topoOrder(fn *ssa.Function) []*ssa.BasicBlock {
	var order []*ssa.BasicBlock
	state := map[*ssa.BasicBlock]int{}
	var visit func(b *ssa.BasicBlock)
	visit = func(b *ssa.BasicBlock) {
		if state[b] != 0 {
			return
		}
		state[b] = 1
		for _, s := range b.Succs {
			if isBackEdge(b, s) {
				continue
			}
			visit(s)
		}
		state[b] = 2
		order = append(order, b)
	}
	if len(fn.Blocks) > 0 {
		visit(fn.Blocks[0])
	}
	for i, j := 0, len(order)-1; i < j; i, j = i+1, j-1 {
		order[i], order[j] = order[j], order[i]
	}
	return order
}

// ---------------------------------------------------------------- constants

func (c *FnCtx) constVal(k *ssa.Const) Val {
	t := k.Type()
	if k.Value == nil {
		// nil or zero value
		if b, ok := t.Underlying().(*types.Basic); ok && b.Kind() == types.UntypedNil {
			return mkRef("0", t)
		}
		return zeroVal(t)
	}
	switch kindOf(t) {
	case KBool:
		if constant.BoolVal(k.Value) {
			return mkBool("true")
		}
		return mkBool("false")
	case KInt:
		if ii, ok := intInfoOf(t); ok && ii.float {
			// floats are opaque: distinct constants get distinct ids via string interning
			return mkInt(smtInt(int64(c.eng.strID("float:"+k.Value.ExactString()))), t)
		}
		v := constant.ToInt(k.Value)
		s := v.ExactString()
		if strings.HasPrefix(s, "-") {
			s = "(- " + s[1:] + ")"
		}
		return mkInt(s, t)
	case KStr:
		return Val{K: KStr, T: smtInt(int64(c.eng.strID(constant.StringVal(k.Value)))), Ty: t}
	}
	return poison("constant of type " + t.String())
}
