#!/bin/sh
# usage: tools/mutants_run.sh [pattern]   -- runs every mutant under /verif/mutants and checks
# that the expected obligation fails (must-fail corpus, DESIGN.md §2.10.5)
cd /verif
pat="${1:-}"
fail=0
for m in mutants/*${pat}*.diff; do
  prop=$(sed -n 's/^# property: //p' "$m"); exp=$(sed -n 's/^# expect: //p' "$m")
  out=$(tools/mutant.sh "$m" "$prop" 2>&1)
  if echo "$out" | grep -q "VIOLATION.*obligation=[^ ]*$(printf '%s' "$exp" | sed 's/[][\\.*^$]/\\&/g')"; then
    echo "CAUGHT  $m  ($exp)"
  else
    echo "MISSED  $m  (expected $exp)"; echo "$out" | head -5 | sed 's/^/        /'; fail=1
  fi
done
exit $fail
