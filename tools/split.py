#!/usr/bin/env python3
"""split.py <query.smt2> [timeout]: diagnose an undecided obligation by case-splitting on the
disjuncts of the last `reach` definition (exit paths) and reporting each verdict."""
import re, subprocess, sys
f = sys.argv[1]; T = sys.argv[2] if len(sys.argv) > 2 else "10"
src = open(f).read()
ms = list(re.finditer(r'\(assert \(= (reach![0-9]+) \(or (.*)\)\)\)\n', src))
def top(body):
    parts=[];d=0;cur='';q=False
    for ch in body:
        if ch=='|': q=not q
        if not q:
            if ch=='(':d+=1
            if ch==')':d-=1
            if ch==' ' and d==0:
                if cur:parts.append(cur);cur=''
                continue
        cur+=ch
    if cur:parts.append(cur)
    return parts
def run(extra):
    t=src.replace('(check-sat)','(assert %s)\n(check-sat)'%extra).replace('(get-model)','')
    open('/tmp/split.smt2','w').write(t)
    return subprocess.run(['z3-new','-smt2','-T:'+T,'/tmp/split.smt2'],capture_output=True,text=True).stdout.split('\n')[0]
# which reach is asserted at the end?
m_assert = re.findall(r'\(assert (reach![0-9]+)\)\n\(assert \(not', src)
target = m_assert[-1] if m_assert else None
for m in ms:
    if target and m.group(1)!=target: continue
    for p in top(m.group(2)):
        print(run(p), p[:200])
