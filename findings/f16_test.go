package index

// F16 (property C10; open): remapIndex re-points the entries of each index file in a temporary
// copy and then (1) creates "<file>.remapped" and (2) renames the copy over the file. The marker
// is what a restarted conversion uses to skip finished files. A crash between (1) and (2) leaves
// the marker next to the ORIGINAL, un-remapped file; the restarted conversion skips it and
// completes, and every entry of that file keeps its old single-file primary offset, which now
// decodes to a wrong chunk and offset. The test builds that state with the real functions
// (upgradeIndex; the remapped copy of file 0 as the uninterrupted conversion produces it; the
// marker of step (1)) and compares every key with an
// uninterrupted conversion of the same legacy store.
//   cd /repo && echo '{"Replace":{"/repo/store/index/f16_test.go":"/verif/findings/f16_test.go"}}' > /tmp/ov.json && go test -overlay /tmp/ov.json -vet=off -count=1 -run TestF16 ./store/index/

import (
	"bytes"
	"context"
	"encoding/binary"
	"io"
	"os"
	"path/filepath"
	"testing"

	"github.com/ipld/go-storethehash/store/filecache"
	"github.com/ipld/go-storethehash/store/freelist"
	mhprimary "github.com/ipld/go-storethehash/store/primary/multihash"
	"github.com/multiformats/go-multihash"
)

func f16Copy(t *testing.T, src, dst string) {
	data, err := os.ReadFile(src)
	if err != nil {
		t.Fatal(err)
	}
	if err = os.WriteFile(dst, data, 0o644); err != nil {
		t.Fatal(err)
	}
}

func TestF16RemapMarkerBeforeRename(t *testing.T) {
	const legacyPrimary = "../primary/multihash/valuestore_test/storethehash.data"
	const fileSize = 1024
	ctx := context.Background()

	// the keys of the legacy store
	raw, err := os.ReadFile(legacyPrimary)
	if err != nil {
		t.Fatal(err)
	}
	var keys [][]byte
	for pos := 0; pos+4 <= len(raw); {
		size := int(binary.LittleEndian.Uint32(raw[pos:]))
		pos += 4
		if pos+size > len(raw) {
			break
		}
		n, mh, err := multihash.MHFromBytes(raw[pos : pos+size])
		if err == nil && n > 0 {
			keys = append(keys, append([]byte(nil), mh...))
		}
		pos += size
	}
	if len(keys) == 0 {
		t.Fatal("no keys in the legacy primary")
	}

	// one upgraded (chunked) primary, shared by both index conversions
	dir := t.TempDir()
	dataPath := filepath.Join(dir, "storethehash.data")
	f16Copy(t, legacyPrimary, dataPath)
	fl, err := freelist.Open(filepath.Join(dir, "storethehash.index.free"))
	if err != nil {
		t.Fatal(err)
	}
	defer fl.Close()
	fc := filecache.New(16)
	mp, err := mhprimary.Open(dataPath, fl, fc, fileSize)
	if err != nil {
		t.Fatal(err)
	}
	defer mp.Close()

	lookup := func(idx *Index, key []byte) (string, bool) {
		ik, err := mp.IndexKey(key)
		if err != nil {
			t.Fatal(err)
		}
		blk, found, err := idx.Get(ik)
		if err != nil || !found {
			return "", false
		}
		k, v, err := mp.Get(blk)
		if err != nil || !bytes.Equal(k, key) {
			return "", false
		}
		return string(v), true
	}

	// A: uninterrupted conversion
	dirA := t.TempDir()
	pathA := filepath.Join(dirA, "storethehash.index")
	f16Copy(t, testIndexPath, pathA)
	idxA, err := Open(ctx, pathA, mp, 0, fileSize, 0, 0, filecache.New(16))
	if err != nil {
		t.Fatal(err)
	}
	defer idxA.Close()

	// B: the conversion is interrupted after index file 0 got its marker and before its rename
	dirB := t.TempDir()
	pathB := filepath.Join(dirB, "storethehash.index")
	f16Copy(t, testIndexPath, pathB)
	if err = upgradeIndex(ctx, pathB, headerName(pathB), fileSize); err != nil {
		t.Fatal(err)
	}
	// step (1) happened: the remapped copy is complete (it is what the uninterrupted conversion
	// produced for this file) and the marker exists; step (2), the rename, did not happen
	f16Copy(t, indexFileName(pathA, 0), indexFileName(pathB, 0)+".tmp")
	marker, err := os.Create(indexFileName(pathB, 0) + ".remapped")
	if err != nil {
		t.Fatal(err)
	}
	marker.Close()
	// restart: Open completes the conversion
	idxB, err := Open(ctx, pathB, mp, 0, fileSize, 0, 0, filecache.New(16))
	if err != nil {
		t.Fatal(err)
	}
	defer idxB.Close()

	foundA, diff := 0, 0
	for _, k := range keys {
		va, oka := lookup(idxA, k)
		vb, okb := lookup(idxB, k)
		if oka {
			foundA++
		}
		if oka != okb || va != vb {
			diff++
		}
	}
	t.Logf("%d keys, %d readable after the uninterrupted conversion", len(keys), foundA)
	if diff != 0 {
		t.Fatalf("%d keys read differently after the interrupted-and-restarted conversion", diff)
	}
	_ = io.EOF
}
