package main

// Evaluation of contract expressions to SMT terms over a symbolic state.

import (
	"fmt"
	"go/constant"
	"go/types"
	"strings"

	"golang.org/x/tools/go/ssa"
)

type Env struct {
	assume   bool // the formula is being assumed (polarity of quantifier typing facts)
	macros   []Macro
	c        *FnCtx
	st       *State
	old      *State
	vars     map[string]Val
	fr       *Frame // locals by name (nil for callee contracts)
	pkg      *types.Package
	entryPar bool // parameter names denote entry values
	self     *Val
}

type specErr struct{ msg string }

func (e specErr) Error() string { return e.msg }

func fail(format string, a ...any) { panic(specErr{fmt.Sprintf(format, a...)}) }

func (c *FnCtx) newEnv(fr *Frame, st, old *State) *Env {
	env := &Env{c: c, st: st, old: old, vars: map[string]Val{}, fr: fr}
	if fr != nil && fr.fn.Pkg != nil {
		env.pkg = fr.fn.Pkg.Pkg
	}
	if fr != nil && fr.spec != nil {
		env.macros = fr.spec.Macros
	}
	return env
}

func (env *Env) pkgMacros() []Macro {
	if env.pkg != nil {
		return env.c.eng.specs.Macros[env.pkg.Path()]
	}
	return nil
}

func (env *Env) with(name string, v Val) *Env {
	n := *env
	n.vars = make(map[string]Val, len(env.vars)+1)
	for k, x := range env.vars {
		n.vars[k] = x
	}
	n.vars[name] = v
	return &n
}

// evalAssume evaluates a formula that will be assumed (not proved).
func (env *Env) evalAssume(e *Expr) (string, error) {
	n := *env
	n.assume = true
	return n.evalBool(e)
}

func (env *Env) flip() *Env {
	n := *env
	n.assume = !env.assume
	return &n
}

func (env *Env) evalBool(e *Expr) (t string, err error) {
	defer func() {
		if r := recover(); r != nil {
			if se, ok := r.(specErr); ok {
				err = se
				return
			}
			panic(r)
		}
	}()
	v := env.eval(e)
	if v.K != KBool {
		return "", specErr{fmt.Sprintf("%s: expression is not boolean: %s", e.Pos, e.String())}
	}
	return v.T, nil
}

func (env *Env) evalVal(e *Expr) (v Val, err error) {
	defer func() {
		if r := recover(); r != nil {
			if se, ok := r.(specErr); ok {
				err = se
				return
			}
			panic(r)
		}
	}()
	return env.eval(e), nil
}

// localByName finds the cell of a named local / parameter in the frame.
func (env *Env) localByName(name string) (Val, bool) {
	fr := env.fr
	if fr == nil {
		return Val{}, false
	}
	want := name
	occ := 1
	if i := strings.Index(name, "#"); i >= 0 {
		want = name[:i]
		fmt.Sscanf(name[i+1:], "%d", &occ)
	}
	var cands []*ssa.Alloc
	for _, b := range fr.fn.Blocks {
		for _, in := range b.Instrs {
			if a, ok := in.(*ssa.Alloc); ok && a.Comment == want {
				cands = append(cands, a)
			}
		}
	}
	if len(cands) == 0 {
		return Val{}, false
	}
	// order by source position
	for i := 0; i < len(cands); i++ {
		for j := i + 1; j < len(cands); j++ {
			if cands[j].Pos() < cands[i].Pos() {
				cands[i], cands[j] = cands[j], cands[i]
			}
		}
	}
	if strings.Contains(name, "#") {
		if occ-1 < len(cands) {
			cands = cands[occ-1 : occ]
		} else {
			return Val{}, false
		}
	}
	// prefer the (unique) candidate that is in scope
	for _, a := range cands {
		if a.Heap {
			if r, ok := fr.regs[a]; ok {
				if l := env.c.ptrToLoc(r); l != nil {
					return env.c.readLoc(env.st, l), true
				}
			}
			continue
		}
		if v, ok := env.st.cells[cellKey{fr.id, a}]; ok {
			return v, true
		}
	}
	return Val{}, false
}

func (env *Env) lookupPkg(name string) *types.Package {
	if env.pkg != nil {
		if path, ok := env.c.eng.aliases[env.pkg.Path()][name]; ok {
			if p := env.c.eng.tpkgs[path]; p != nil {
				return p
			}
		}
		for _, imp := range env.pkg.Imports() {
			if imp.Name() == name {
				return imp
			}
		}
		if env.pkg.Name() == name {
			return env.pkg
		}
	}
	// fall back: any loaded package with that name (prefer in-module)
	var found *types.Package
	for path, p := range env.c.eng.tpkgs {
		if p.Name() == name {
			if strings.HasPrefix(path, env.c.eng.modPath) {
				return p
			}
			if found == nil || len(path) < len(found.Path()) {
				found = p
			}
		}
	}
	return found
}

func (env *Env) resolveType(s string) types.Type {
	s = strings.TrimSpace(s)
	switch {
	case strings.HasPrefix(s, "*"):
		if t := env.resolveType(s[1:]); t != nil {
			return types.NewPointer(t)
		}
		return nil
	case strings.HasPrefix(s, "[]"):
		if t := env.resolveType(s[2:]); t != nil {
			return types.NewSlice(t)
		}
		return nil
	}
	if obj := types.Universe.Lookup(s); obj != nil {
		if tn, ok := obj.(*types.TypeName); ok {
			return tn.Type()
		}
	}
	if i := strings.Index(s, "."); i >= 0 {
		if p := env.lookupPkg(s[:i]); p != nil {
			if obj := p.Scope().Lookup(s[i+1:]); obj != nil {
				if tn, ok := obj.(*types.TypeName); ok {
					return tn.Type()
				}
			}
		}
		return nil
	}
	if env.pkg != nil {
		if obj := env.pkg.Scope().Lookup(s); obj != nil {
			if tn, ok := obj.(*types.TypeName); ok {
				return tn.Type()
			}
		}
	}
	return nil
}

func (env *Env) constObj(obj types.Object) (Val, bool) {
	switch o := obj.(type) {
	case *types.Const:
		k := &ssa.Const{Value: o.Val()}
		_ = k
		t := o.Type()
		switch kindOf(t) {
		case KBool:
			if constant.BoolVal(o.Val()) {
				return mkBool("true"), true
			}
			return mkBool("false"), true
		case KInt:
			v := constant.ToInt(o.Val())
			if v.Kind() != constant.Int {
				return Val{}, false
			}
			s := v.ExactString()
			if strings.HasPrefix(s, "-") {
				s = "(- " + s[1:] + ")"
			}
			return mkInt(s, t), true
		case KStr:
			return Val{K: KStr, T: smtInt(int64(env.c.eng.strID(constant.StringVal(o.Val())))), Ty: t}, true
		}
	}
	return Val{}, false
}

func (env *Env) eval(e *Expr) Val {
	c := env.c
	switch e.Op {
	case "lit":
		return mkInt(e.Name, nil)
	case "str":
		return Val{K: KStr, T: smtInt(int64(c.eng.strID(e.Name)))}
	case "id":
		switch e.Name {
		case "true":
			return mkBool("true")
		case "false":
			return mkBool("false")
		case "nil":
			return mkRef("0", types.Typ[types.UntypedNil])
		case "self":
			if env.self != nil {
				return *env.self
			}
		case "$alloc":
			return mkInt(env.st.alloc, nil)
		}
		if v, ok := env.vars[e.Name]; ok {
			return v
		}
		if env.fr != nil {
			isClosure := env.fr.parent != nil && env.fr.fn.Parent() == env.fr.parent.fn
			if env.entryPar && isClosure {
				// entry values of the enclosing function's parameters
				if v, ok := env.fr.parent.params[e.Name]; ok {
					return v
				}
			}
			if env.entryPar {
				if v, ok := env.fr.params[e.Name]; ok {
					return v
				}
			}
			if v, ok := env.localByName(e.Name); ok {
				return v
			}
			if v, ok := env.fr.params[e.Name]; ok {
				return v
			}
			// captured variables of a closure inlined into its parent
			for fv, v := range env.fr.freeVar {
				if fv.Name() == e.Name {
					if l := c.ptrToLoc(v); l != nil {
						return c.readLoc(env.st, l)
					}
				}
			}
			if env.fr.parent != nil && env.fr.fn.Parent() == env.fr.parent.fn {
				n := *env
				n.fr = env.fr.parent
				return n.eval(e)
			}
		}
		if v, ok := env.st.ghost[e.Name]; ok {
			return v
		}
		if env.pkg != nil {
			if obj := env.pkg.Scope().Lookup(e.Name); obj != nil {
				if v, ok := env.constObj(obj); ok {
					return v
				}
			}
		}
		if sig, ok := c.eng.specFns[e.Name]; ok && len(sig.Args) == 0 {
			return sortVal(e.Name, sig.Ret)
		}
		fail("%s: unknown identifier %q", e.Pos, e.Name)
	case "un":
		if e.Name == "!" {
			x := env.flip().eval(e.Args[0])
			if x.K != KBool {
				fail("%s: ! of non-bool", e.Pos)
			}
			return mkBool(sNot(x.T))
		}
		x := env.eval(e.Args[0])
		return mkInt("(- "+x.T+")", nil)
	case "bin":
		return env.evalBin(e)
	case "forall", "exists":
		n := env
		var bs []string
		var facts []string  // typing facts of terms mentioning the bound variables
		var domain []string // typing of the bound variables themselves: always a guard
		for _, b := range e.Vars {
			nm := sym("q." + b.Name)
			var v Val
			switch b.Type {
			case "int", "Int":
				v = mkInt(nm, nil)
				bs = append(bs, "("+nm+" Int)")
			case "bool":
				v = mkBool(nm)
				bs = append(bs, "("+nm+" Bool)")
			default:
				if c.eng.sorts[b.Type] || strings.HasPrefix(b.Type, "(") {
					v = mkOpaque(nm, b.Type)
					bs = append(bs, "("+nm+" "+b.Type+")")
				} else if t := env.resolveType(b.Type); t != nil {
					switch kindOf(t) {
					case KInt, KRef, KStr:
						v = Val{K: kindOf(t), T: nm, Ty: t}
						bs = append(bs, "("+nm+" Int)")
						for _, f := range typeFacts(v, "") {
							domain = append(domain, f)
						}
					case KBool:
						v = mkBool(nm)
						bs = append(bs, "("+nm+" Bool)")
					default:
						fail("%s: quantifier over type %s not supported", e.Pos, b.Type)
					}
				} else {
					fail("%s: unknown binder type %q", e.Pos, b.Type)
				}
			}
			n = n.with(b.Name, v)
		}
		c.noFacts++
		c.qfacts = append(c.qfacts, nil)
		body := func() Val {
			defer func() { c.noFacts-- }()
			return n.eval(e.Args[0])
		}()
		qf := c.qfacts[len(c.qfacts)-1]
		c.qfacts = c.qfacts[:len(c.qfacts)-1]
		{
			seen := map[string]bool{}
			for _, f := range qf {
				if !seen[f] {
					seen[f] = true
					facts = append(facts, f)
				}
			}
		}
		if body.K != KBool {
			fail("%s: quantifier body not boolean", e.Pos)
		}
		bt := body.T
		if len(facts) > 0 {
			// typing facts of terms that mention the bound variables are valid; they are
			// hypotheses when the formula is a goal and extra conclusions when it is assumed
			switch {
			case e.Op == "forall" && !env.assume:
				bt = sImp(sAnd(facts...), bt)
			case e.Op == "forall" && env.assume:
				bt = sAnd(append(facts, bt)...)
			case e.Op == "exists" && env.assume:
				bt = sAnd(append(facts, bt)...)
			}
		}
		if len(domain) > 0 {
			if e.Op == "forall" {
				bt = sImp(sAnd(domain...), bt)
			} else {
				bt = sAnd(append(domain, bt)...)
			}
		}
		return mkBool("(" + e.Op + " (" + strings.Join(bs, " ") + ") " + bt + ")")
	case "sel":
		return env.evalSel(e)
	case "idx":
		return env.evalIdx(e)
	case "upd":
		m := env.eval(e.Args[0])
		k := env.eval(e.Args[1])
		v := env.eval(e.Args[2])
		if m.K != KOpaque {
			fail("%s: update of non-ghost map", e.Pos)
		}
		return mkOpaque("(store "+m.T+" "+env.asKey(k)+" "+oneTerm(v, e)+")", m.Sort)
	case "slice":
		x := env.eval(e.Args[0])
		if x.K == KOpaque && x.Sort == "Bytes" {
			lo, hi := "0", "(blen "+x.T+")"
			if e.Args[1] != nil {
				lo = env.eval(e.Args[1]).T
			}
			if e.Args[2] != nil {
				hi = env.eval(e.Args[2]).T
			}
			return mkOpaque("(bsub "+x.T+" "+lo+" "+hi+")", "Bytes")
		}
		if x.K == KSlice {
			lo, hi := "0", x.Fs[2].T
			if e.Args[1] != nil {
				lo = env.eval(e.Args[1]).T
			}
			if e.Args[2] != nil {
				hi = env.eval(e.Args[2]).T
			}
			it := types.Typ[types.Int]
			return Val{K: KSlice, Ty: x.Ty, Fs: []Val{x.Fs[0], mkInt("(+ "+x.Fs[1].T+" "+lo+")", it), mkInt("(- "+hi+" "+lo+")", it), mkInt("(- "+x.Fs[3].T+" "+lo+")", it)}}
		}
		fail("%s: slice expression on unsupported value", e.Pos)
	case "call":
		return env.evalCall(e)
	}
	fail("%s: cannot evaluate %s", e.Pos, e.String())
	return Val{}
}

func sortVal(term, sort string) Val {
	switch sort {
	case "Int":
		return mkInt(term, nil)
	case "Bool":
		return mkBool(term)
	}
	return mkOpaque(term, sort)
}

func oneTerm(v Val, e *Expr) string {
	f := flatten(v)
	if len(f) != 1 {
		fail("%s: composite value where a single term is needed", e.Pos)
	}
	return f[0]
}

func (env *Env) asKey(k Val) string {
	if k.K == KOpaque {
		return k.T
	}
	return env.c.keyTerm(k)
}

func (env *Env) evalBin(e *Expr) Val {
	op := e.Name
	switch op {
	case "&&", "||", "==>", "<==>":
		var a Val
		if op == "==>" {
			a = env.flip().eval(e.Args[0])
		} else {
			a = env.eval(e.Args[0])
		}
		b := env.eval(e.Args[1])
		if a.K != KBool || b.K != KBool {
			fail("%s: logical operator on non-bool in %s", e.Pos, e.String())
		}
		switch op {
		case "&&":
			return mkBool(sAnd(a.T, b.T))
		case "||":
			return mkBool(sOr(a.T, b.T))
		case "==>":
			return mkBool(sImp(a.T, b.T))
		default:
			return mkBool("(= " + a.T + " " + b.T + ")")
		}
	case "in":
		k := env.eval(e.Args[0])
		m := env.eval(e.Args[1])
		if m.K == KOpaque {
			return mkBool("(select " + m.T + " " + env.asKey(k) + ")")
		}
		if m.K == KRef && m.Ty != nil {
			if mt, ok := m.Ty.Underlying().(*types.Map); ok {
				return mkBool(sAnd("(not (= "+m.T+" 0))", env.c.mapPresent(env.st, mt, m.T, env.c.keyTerm(k))))
			}
		}
		fail("%s: 'in' on unsupported value", e.Pos)
	}
	a := env.eval(e.Args[0])
	b := env.eval(e.Args[1])
	switch op {
	case "==", "!=":
		var eq string
		if a.K == KOpaque || b.K == KOpaque {
			eq = sEq(oneTerm(a, e), oneTerm(b, e))
		} else if a.K == KIface && (b.K == KStr || b.K == KInt) && b.Ty != nil {
			// interface compared with a typed constant (e.g. err == types.ErrKeyExists)
			eq = sAnd("(= "+a.Fs[0].T+" "+smtInt(int64(env.c.eng.typeID(b.Ty)))+")", "(= "+a.Fs[1].T+" "+b.T+")")
		} else if b.K == KIface && (a.K == KStr || a.K == KInt) && a.Ty != nil {
			eq = sAnd("(= "+b.Fs[0].T+" "+smtInt(int64(env.c.eng.typeID(a.Ty)))+")", "(= "+b.Fs[1].T+" "+a.T+")")
		} else {
			eq = env.c.valEq(a, b)
		}
		if op == "!=" {
			eq = sNot(eq)
		}
		return mkBool(eq)
	case "<", "<=", ">", ">=":
		return mkBool("(" + op + " " + oneTerm(a, e) + " " + oneTerm(b, e) + ")")
	case "+", "-", "*":
		if op == "+" && (a.K == KStr || b.K == KStr) {
			return Val{K: KStr, T: "(gstr.cat " + a.T + " " + b.T + ")", Ty: a.Ty}
		}
		return mkInt("("+op+" "+oneTerm(a, e)+" "+oneTerm(b, e)+")", nil)
	case "/":
		return mkInt("(div "+oneTerm(a, e)+" "+oneTerm(b, e)+")", nil)
	case "%":
		return mkInt("(mod "+oneTerm(a, e)+" "+oneTerm(b, e)+")", nil)
	case "<<":
		if k, ok := litInt(e.Args[1]); ok {
			return mkInt("(* "+oneTerm(a, e)+" "+pow2(k)+")", nil)
		}
		return mkInt("(* "+oneTerm(a, e)+" (pow2 "+oneTerm(b, e)+"))", nil)
	case ">>":
		if k, ok := litInt(e.Args[1]); ok {
			return mkInt("(div "+oneTerm(a, e)+" "+pow2(k)+")", nil)
		}
		return mkInt("(div "+oneTerm(a, e)+" (pow2 "+oneTerm(b, e)+"))", nil)
	}
	fail("%s: operator %s not supported in contracts", e.Pos, op)
	return Val{}
}

func litInt(e *Expr) (int, bool) {
	if e.Op == "lit" {
		var n int
		if _, err := fmt.Sscanf(e.Name, "%d", &n); err == nil && n >= 0 && n < 200 {
			return n, true
		}
	}
	return 0, false
}

// evalLoc evaluates an expression denoting a memory location (x.f chains).
func (env *Env) evalLoc(e *Expr) *Loc {
	if e.Op != "sel" {
		fail("%s: location expression expected: %s", e.Pos, e.String())
	}
	// base may itself be a location (nested struct field) or a pointer value
	var baseLoc *Loc
	if e.Args[0].Op == "sel" {
		// try pointer value first
		bv, err := env.evalVal(e.Args[0])
		if err == nil && bv.K == KRef {
			baseLoc = env.c.ptrToLoc(bv)
		} else {
			baseLoc = env.evalLoc(e.Args[0])
		}
	} else {
		bv := env.eval(e.Args[0])
		baseLoc = env.c.ptrToLoc(bv)
		if baseLoc == nil {
			fail("%s: %s is not a pointer to a struct", e.Pos, e.Args[0].String())
		}
	}
	if baseLoc == nil || baseLoc.Kind != LField {
		fail("%s: unsupported location %s", e.Pos, e.String())
	}
	_, t := pathString(baseLoc.Root, baseLoc.Path)
	st, ok := t.Underlying().(*types.Struct)
	if !ok {
		fail("%s: %s is not a struct", e.Pos, e.Args[0].String())
	}
	if strings.HasPrefix(e.Name, "$") {
		nl := *baseLoc
		nl.Path = append(append([]int(nil), baseLoc.Path...), -1)
		nl.Idx = e.Name
		return &nl
	}
	for i := 0; i < st.NumFields(); i++ {
		if st.Field(i).Name() == e.Name {
			nl := *baseLoc
			nl.Path = append(append([]int(nil), baseLoc.Path...), i)
			nl.Ty = st.Field(i).Type()
			return &nl
		}
	}
	// promoted fields through embedded structs
	for i := 0; i < st.NumFields(); i++ {
		if st.Field(i).Embedded() {
			if es, ok := st.Field(i).Type().Underlying().(*types.Struct); ok {
				for j := 0; j < es.NumFields(); j++ {
					if es.Field(j).Name() == e.Name {
						nl := *baseLoc
						nl.Path = append(append([]int(nil), baseLoc.Path...), i, j)
						nl.Ty = es.Field(j).Type()
						return &nl
					}
				}
			}
		}
	}
	fail("%s: no field %s in %s", e.Pos, e.Name, t.String())
	return nil
}

func (env *Env) ghostFieldSort(root types.Type, name string) string {
	if n, ok := root.(*types.Named); ok && n.Obj().Pkg() != nil {
		if ts, ok := env.c.eng.specs.Types[n.Obj().Pkg().Path()+"::"+n.Obj().Name()]; ok {
			for _, g := range ts.GhostFlds {
				if g.Name == name {
					return g.Type
				}
			}
		}
	}
	return ""
}

func ghostArrayName(root types.Type, name string) string {
	return "G:" + typeKey(root) + "." + name
}

func (env *Env) evalSel(e *Expr) Val {
	c := env.c
	// package-qualified names
	if e.Args[0].Op == "id" {
		if _, isVar := env.vars[e.Args[0].Name]; !isVar {
			if _, isLocal := env.localByName(e.Args[0].Name); !isLocal {
				var isParam bool
				if env.fr != nil {
					_, isParam = env.fr.params[e.Args[0].Name]
				}
				if !isParam {
					if p := env.lookupPkg(e.Args[0].Name); p != nil {
						obj := p.Scope().Lookup(e.Name)
						if obj == nil {
							fail("%s: %s.%s not found", e.Pos, e.Args[0].Name, e.Name)
						}
						if v, ok := env.constObj(obj); ok {
							// constants of error-like named string types used as errors are compared as interfaces
							return v
						}
						if gv, ok := obj.(*types.Var); ok {
							if sp := c.eng.pkgs[p.Path()]; sp != nil {
								if g, ok := sp.Members[gv.Name()].(*ssa.Global); ok {
									return c.globalValue(&blockCtx{st: env.st}, g)
								}
							}
						}
						fail("%s: cannot use %s.%s in a contract", e.Pos, e.Args[0].Name, e.Name)
					}
				}
			}
		}
	}
	base := env.eval(e.Args[0])
	switch base.K {
	case KStruct, KTuple:
		if st, ok := base.Ty.Underlying().(*types.Struct); ok {
			for i := 0; i < st.NumFields(); i++ {
				if st.Field(i).Name() == e.Name {
					return base.Fs[i]
				}
			}
			for i := 0; i < st.NumFields(); i++ {
				if st.Field(i).Embedded() {
					if es, ok := st.Field(i).Type().Underlying().(*types.Struct); ok {
						for j := 0; j < es.NumFields(); j++ {
							if es.Field(j).Name() == e.Name {
								return base.Fs[i].Fs[j]
							}
						}
					}
				}
			}
		}
		fail("%s: no field %s", e.Pos, e.Name)
	case KRef:
		l := c.ptrToLoc(base)
		if l == nil || l.Kind != LField {
			fail("%s: %s is not a pointer to a struct (type %v)", e.Pos, e.Args[0].String(), base.Ty)
		}
		if strings.HasPrefix(e.Name, "$") {
			srt := env.ghostFieldSort(l.Root, e.Name)
			if srt == "" {
				fail("%s: ghost field %s not declared on %s", e.Pos, e.Name, l.Root.String())
			}
			a := c.heapGet(env.st, ghostArrayName(l.Root, e.Name), arrSort(srt))
			return sortVal("(select "+a+" "+base.T+")", srt)
		}
		loc := env.evalLoc(e)
		return c.readLoc(env.st, loc)
	case KSlice:
		switch e.Name {
		case "$arr":
			return base.Fs[0]
		case "$off":
			return base.Fs[1]
		}
	case KIface:
		switch e.Name {
		case "$tag":
			return base.Fs[0]
		case "$pay":
			return base.Fs[1]
		}
		if strings.HasPrefix(e.Name, "$") && base.Ty != nil {
			srt := env.ghostFieldSort(base.Ty, e.Name)
			if srt == "" {
				fail("%s: ghost field %s not declared on %s", e.Pos, e.Name, base.Ty.String())
			}
			a := c.heapGet(env.st, ghostArrayName(base.Ty, e.Name), arrSort(srt))
			return sortVal("(select "+a+" "+base.Fs[1].T+")", srt)
		}
	}
	fail("%s: cannot select .%s from %s", e.Pos, e.Name, e.Args[0].String())
	return Val{}
}

func (env *Env) evalIdx(e *Expr) Val {
	c := env.c
	x := env.eval(e.Args[0])
	i := env.eval(e.Args[1])
	switch x.K {
	case KSlice:
		el := x.Ty.Underlying().(*types.Slice).Elem()
		l := &Loc{Kind: LElem, Base: x.Fs[0].T, Root: el, Idx: "(idx " + x.Fs[1].T + " " + oneTerm(i, e) + ")", Ty: el}
		return c.readLoc(env.st, l)
	case KOpaque:
		if x.Sort == "Bytes" {
			return mkInt("(bat "+x.T+" "+oneTerm(i, e)+")", nil)
		}
		if strings.HasPrefix(x.Sort, "(Array ") {
			parts := splitSexprs(x.Sort[1 : len(x.Sort)-1])
			if len(parts) == 3 {
				return sortVal("(select "+x.T+" "+env.asKey(i)+")", parts[2])
			}
		}
	case KRef:
		if x.Ty != nil {
			if mt, ok := x.Ty.Underlying().(*types.Map); ok {
				return c.mapValue(env.st, mt, x.T, c.keyTerm(i))
			}
		}
	case KArray:
		if k, ok := litInt(e.Args[1]); ok && k < len(x.Fs) {
			return x.Fs[k]
		}
	}
	fail("%s: cannot index %s", e.Pos, e.Args[0].String())
	return Val{}
}

func (env *Env) bytesOf(v Val, e *Expr) Val {
	if v.K == KOpaque && v.Sort == "Bytes" {
		return v
	}
	if v.K != KSlice {
		fail("%s: bytes() of non-slice", e.Pos)
	}
	a := env.c.heapGet(env.st, elemArrayName(types.Typ[types.Uint8], ""), arr2Sort("Int"))
	return mkOpaque("(mkbytes (select "+a+" "+v.Fs[0].T+") "+v.Fs[1].T+" "+v.Fs[2].T+")", "Bytes")
}

func (env *Env) lockTerm(e *Expr) string {
	l := env.evalLoc(e)
	an := lockArrayName(l)
	if an == "" {
		fail("%s: not a lock location: %s", e.Pos, e.String())
	}
	a := env.c.heapGet(env.st, an, arrSort("Int"))
	return "(select " + a + " " + l.Base + ")"
}

func (env *Env) evalCall(e *Expr) Val {
	c := env.c
	switch e.Name {
	case "old":
		if env.old == nil {
			fail("%s: old() not available here", e.Pos)
		}
		n := *env
		n.st = env.old
		n.entryPar = true
		return n.eval(e.Args[0])
	case "len":
		x := env.eval(e.Args[0])
		switch x.K {
		case KSlice:
			return mkInt(x.Fs[2].T, nil)
		case KOpaque:
			if x.Sort == "Bytes" {
				return mkInt("(blen "+x.T+")", nil)
			}
		case KRef:
			if x.Ty != nil {
				if mt, ok := x.Ty.Underlying().(*types.Map); ok {
					return mkInt(sIte("(= "+x.T+" 0)", "0", c.mapCard(env.st, mt, x.T)), nil)
				}
			}
		case KStr:
			return mkInt("(gstr.len "+x.T+")", nil)
		case KArray:
			return mkInt(fmt.Sprint(len(x.Fs)), nil)
		}
		fail("%s: len of unsupported value", e.Pos)
	case "cap":
		x := env.eval(e.Args[0])
		if x.K == KSlice {
			return mkInt(x.Fs[3].T, nil)
		}
		fail("%s: cap of non-slice", e.Pos)
	case "bytes":
		return env.bytesOf(env.eval(e.Args[0]), e)
	case "ite":
		cnd := env.eval(e.Args[0])
		a := env.eval(e.Args[1])
		b := env.eval(e.Args[2])
		if a.K == KOpaque {
			return mkOpaque(sIte(cnd.T, a.T, b.T), a.Sort)
		}
		return c.iteVal(cnd.T, a, b)
	case "held":
		return mkBool("(= " + env.lockTerm(e.Args[0]) + " 1)")
	case "rheld":
		t := env.lockTerm(e.Args[0])
		return mkBool("(or (= " + t + " 1) (= " + t + " 2))")
	case "unlocked":
		return mkBool("(= " + env.lockTerm(e.Args[0]) + " 0)")
	case "closed", "waited":
		ch := env.eval(e.Args[0])
		name := "CH:closed"
		if e.Name == "waited" {
			name = "CH:waited"
		}
		a := c.heapGet(env.st, name, arrSort("Bool"))
		return mkBool("(select " + a + " " + ch.T + ")")
	case "oncedone":
		l := env.evalLoc(e.Args[0])
		p, _ := pathString(l.Root, l.Path)
		a := c.heapGet(env.st, "ONCE:"+typeKey(l.Root)+p, arrSort("Bool"))
		return mkBool("(select " + a + " " + l.Base + ")")
	case "fresh":
		if env.old == nil {
			fail("%s: fresh() needs an old state", e.Pos)
		}
		x := env.eval(e.Args[0])
		t := x.T
		if x.K == KSlice {
			t = x.Fs[0].T
		}
		return mkBool("(> " + t + " " + env.old.alloc + ")")
	case "allocated":
		x := env.eval(e.Args[0])
		t := x.T
		if x.K == KSlice {
			t = x.Fs[0].T
		}
		return mkBool("(<= " + t + " " + env.st.alloc + ")")
	case "typeis":
		x := env.eval(e.Args[0])
		if x.K != KIface {
			fail("%s: typeis on non-interface", e.Pos)
		}
		tn := e.Args[1].String()
		if e.Args[1].Op == "str" {
			tn = e.Args[1].Name
		}
		t := env.resolveType(tn)
		if t == nil {
			fail("%s: unknown type %s", e.Pos, tn)
		}
		return mkBool("(= " + x.Fs[0].T + " " + smtInt(int64(c.eng.typeID(t))) + ")")
	case "as":
		// as(I, x): the pointer x viewed as a value of interface type I (to reach ghost fields declared on I)
		it := env.resolveType(e.Args[0].String())
		if it == nil {
			fail("%s: unknown interface type %s", e.Pos, e.Args[0].String())
		}
		x := env.eval(e.Args[1])
		if x.K != KRef || x.Ty == nil {
			fail("%s: as(): pointer value expected", e.Pos)
		}
		return Val{K: KIface, Ty: it, Fs: []Val{mkInt(smtInt(int64(c.eng.typeID(x.Ty))), nil), mkInt(x.T, nil)}}
	case "iface":
		// iface(T, x): the interface value holding x of dynamic type T
		t := env.resolveType(e.Args[0].String())
		if t == nil {
			fail("%s: unknown type %s", e.Pos, e.Args[0].String())
		}
		x := env.eval(e.Args[1])
		return Val{K: KIface, Fs: []Val{mkInt(smtInt(int64(c.eng.typeID(t))), nil), mkInt(oneTerm(x, e), nil)}}
	case "event":
		// event("name"): ghost event counter
		if len(e.Args) == 1 && e.Args[0].Op == "str" {
			if v, ok := env.st.ghost["$ev."+e.Args[0].Name]; ok {
				return v
			}
			return mkInt("0", nil)
		}
	case "haskey":
		m := env.eval(e.Args[0])
		k := env.eval(e.Args[1])
		if m.K == KRef && m.Ty != nil {
			if mt, ok := m.Ty.Underlying().(*types.Map); ok {
				return mkBool(sAnd("(not (= "+m.T+" 0))", c.mapPresent(env.st, mt, m.T, c.keyTerm(k))))
			}
		}
		fail("%s: haskey on non-map", e.Pos)
	case "mhas", "mget":
		// map access by raw key code (lets contracts quantify over the keys of a map with struct keys)
		m := env.eval(e.Args[0])
		k := env.eval(e.Args[1])
		mt, ok := m.Ty.Underlying().(*types.Map)
		if m.K != KRef || !ok {
			fail("%s: %s on non-map", e.Pos, e.Name)
		}
		if e.Name == "mhas" {
			return mkBool(sAnd("(not (= "+m.T+" 0))", c.mapPresent(env.st, mt, m.T, oneTerm(k, e))))
		}
		return c.mapValue(env.st, mt, m.T, oneTerm(k, e))
	case "keyof":
		return mkInt(c.keyTerm(env.eval(e.Args[0])), nil)
	case "visited":
		v, ok := env.vars["$visited"]
		if !ok {
			fail("%s: visited() is only available in invariants of a loop ranging over a map", e.Pos)
		}
		return mkBool("(select " + v.T + " " + env.asKey(env.eval(e.Args[0])) + ")")
	case "inv":
		// inv(obj [, "-label" ...]): the conjunction of the invariant clauses of obj's type
		obj := env.eval(e.Args[0])
		ts := c.typeSpecOf(obj.Ty)
		if ts == nil {
			fail("%s: inv(): no invariant declared for %v", e.Pos, obj.Ty)
		}
		except := map[string]bool{}
		for _, a := range e.Args[1:] {
			if a.Op == "str" {
				except[strings.TrimPrefix(a.Name, "-")] = true
			}
		}
		var parts []string
		for _, iv := range ts.Invariants {
			if except[iv.Label] {
				continue
			}
			v := env.with("self", obj).eval(iv.E)
			parts = append(parts, v.T)
		}
		return mkBool(sAnd(parts...))
	case "ptr":
		// ptr(T, x): the integer x viewed as a *T
		t := env.resolveType(e.Args[0].String())
		if t == nil {
			fail("%s: unknown type %s", e.Pos, e.Args[0].String())
		}
		x := env.eval(e.Args[1])
		return mkRef(oneTerm(x, e), types.NewPointer(t))
	case "arrof":
		x := env.eval(e.Args[0])
		if x.K != KSlice {
			fail("%s: arrof of non-slice", e.Pos)
		}
		el := x.Ty.Underlying().(*types.Slice).Elem()
		lv := leavesOf(el)
		if len(lv) != 1 {
			fail("%s: arrof of slice with composite elements", e.Pos)
		}
		a := c.heapGet(env.st, elemArrayName(el, ""), arr2Sort(lv[0].sort))
		return mkOpaque("(select "+a+" "+x.Fs[0].T+")", arrSort(lv[0].sort))
	case "baseof":
		// baseof(s): the backing array object of slice s (0 for a nil slice)
		x := env.eval(e.Args[0])
		if x.K != KSlice {
			fail("%s: baseof of non-slice", e.Pos)
		}
		return mkInt(x.Fs[0].T, nil)
	case "offof":
		x := env.eval(e.Args[0])
		if x.K != KSlice {
			fail("%s: offof of non-slice", e.Pos)
		}
		return mkInt(x.Fs[1].T, nil)
	}
	// macros
	for _, ms := range [][]Macro{env.macros, env.pkgMacros()} {
		for _, m := range ms {
			if m.Name == e.Name && len(m.Params) == len(e.Args) {
				n := env
				var vals []Val
				for _, a := range e.Args {
					vals = append(vals, env.eval(a))
				}
				for i, pn := range m.Params {
					n = n.with(pn, vals[i])
				}
				return n.eval(m.Body)
			}
		}
	}
	// conversions
	if t := env.resolveType(e.Name); t != nil && len(e.Args) == 1 {
		x := env.eval(e.Args[0])
		switch x.K {
		case KInt, KStr, KRef:
			return x // mathematical: conversions never change the value in contracts
		case KSlice:
			x.Ty = t
			return x
		}
		return x
	}
	// prelude functions
	if sig, ok := c.eng.specFns[e.Name]; ok {
		if len(sig.Args) != len(e.Args) {
			fail("%s: %s expects %d arguments", e.Pos, e.Name, len(sig.Args))
		}
		var ts []string
		for i, a := range e.Args {
			v := env.eval(a)
			if sig.Args[i] == "Bytes" && v.K == KSlice {
				v = env.bytesOf(v, e)
			}
			ts = append(ts, oneTerm(v, a))
		}
		if len(ts) == 0 {
			return sortVal(e.Name, sig.Ret)
		}
		return sortVal("("+e.Name+" "+strings.Join(ts, " ")+")", sig.Ret)
	}
	fail("%s: unknown function %q in contract", e.Pos, e.Name)
	return Val{}
}
