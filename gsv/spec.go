package main

// Contract language: data structures, lexer and parser.
//
// Contracts are `//@` comment lines, either in /repo/**/verif_contracts.go
// (guarded by the build tag `verif`, comment-only) or in
// /verif/contracts/ext/*.spec (assumed contracts on dependencies).

import (
	"fmt"
	"os"
	"path/filepath"
	"sort"
	"strconv"
	"strings"
	"unicode"
)

// ---------------------------------------------------------------- expressions

type Expr struct {
	Op   string // lit, str, id, bin, un, call, idx, sel, slice, forall, exists, upd
	Name string // id name, operator, field, called function
	Args []*Expr
	Vars []Binder // forall/exists
	Pos  string   // file:line of the clause (for messages)
}

type Binder struct {
	Name string
	Type string
}

func (e *Expr) String() string {
	switch e.Op {
	case "lit", "id":
		return e.Name
	case "str":
		return strconv.Quote(e.Name)
	case "bin":
		return "(" + e.Args[0].String() + " " + e.Name + " " + e.Args[1].String() + ")"
	case "un":
		return e.Name + e.Args[0].String()
	case "call":
		var a []string
		for _, x := range e.Args {
			a = append(a, x.String())
		}
		return e.Name + "(" + strings.Join(a, ", ") + ")"
	case "idx":
		return e.Args[0].String() + "[" + e.Args[1].String() + "]"
	case "upd":
		return e.Args[0].String() + "[" + e.Args[1].String() + " := " + e.Args[2].String() + "]"
	case "sel":
		return e.Args[0].String() + "." + e.Name
	case "slice":
		s := e.Args[0].String() + "["
		if e.Args[1] != nil {
			s += e.Args[1].String()
		}
		s += ":"
		if e.Args[2] != nil {
			s += e.Args[2].String()
		}
		return s + "]"
	case "forall", "exists":
		var b []string
		for _, v := range e.Vars {
			b = append(b, v.Name+" "+v.Type)
		}
		return "(" + e.Op + " " + strings.Join(b, ", ") + " :: " + e.Args[0].String() + ")"
	}
	return "?" + e.Op
}

type tok struct {
	k string // id, int, str, op, eof
	s string
}

func lexSpec(s string) ([]tok, error) {
	var out []tok
	i := 0
	for i < len(s) {
		c := s[i]
		switch {
		case c == ' ' || c == '\t':
			i++
		case c == '/' && i+1 < len(s) && s[i+1] == '/':
			i = len(s) // trailing comment
		case unicode.IsLetter(rune(c)) || c == '_' || c == '$':
			j := i + 1
			for j < len(s) && (unicode.IsLetter(rune(s[j])) || unicode.IsDigit(rune(s[j])) || s[j] == '_' || s[j] == '$' || s[j] == '#') {
				j++
			}
			out = append(out, tok{"id", s[i:j]})
			i = j
		case unicode.IsDigit(rune(c)):
			j := i + 1
			for j < len(s) && (unicode.IsDigit(rune(s[j])) || s[j] == 'x' || (s[j] >= 'a' && s[j] <= 'f') || (s[j] >= 'A' && s[j] <= 'F') || s[j] == '_') {
				j++
			}
			out = append(out, tok{"int", s[i:j]})
			i = j
		case c == '"':
			j := i + 1
			for j < len(s) && s[j] != '"' {
				if s[j] == '\\' {
					j++
				}
				j++
			}
			if j >= len(s) {
				return nil, fmt.Errorf("unterminated string")
			}
			u, err := strconv.Unquote(s[i : j+1])
			if err != nil {
				return nil, err
			}
			out = append(out, tok{"str", u})
			i = j + 1
		default:
			ops := []string{"<==>", "==>", "<<", ">>", "&^", "||", "&&", "==", "!=", "<=", ">=", "::", ":=", "<", ">", "+", "-", "*", "/", "%", "!", "(", ")", "[", "]", ".", ",", ":", "\\", "&", "|", "^", "{", "}", "@"}
			found := false
			for _, o := range ops {
				if strings.HasPrefix(s[i:], o) {
					out = append(out, tok{"op", o})
					i += len(o)
					found = true
					break
				}
			}
			if !found {
				return nil, fmt.Errorf("bad character %q in spec", c)
			}
		}
	}
	out = append(out, tok{"eof", ""})
	return out, nil
}

type sparser struct {
	t   []tok
	i   int
	pos string
}

func (p *sparser) peek() tok { return p.t[p.i] }
func (p *sparser) next() tok { t := p.t[p.i]; p.i++; return t }
func (p *sparser) isOp(s string) bool {
	return p.t[p.i].k == "op" && p.t[p.i].s == s
}
func (p *sparser) isID(s string) bool {
	return p.t[p.i].k == "id" && p.t[p.i].s == s
}
func (p *sparser) expectOp(s string) {
	if !p.isOp(s) {
		panic(fmt.Sprintf("%s: expected %q, got %q", p.pos, s, p.t[p.i].s))
	}
	p.i++
}

var binPrec = map[string]int{
	"<==>": 1, "==>": 2, "||": 3, "&&": 4,
	"==": 5, "!=": 5, "<": 5, "<=": 5, ">": 5, ">=": 5, "in": 5,
	"+": 6, "-": 6, "|": 6, "^": 6, "\\": 6,
	"*": 7, "/": 7, "%": 7, "<<": 7, ">>": 7, "&": 7, "&^": 7,
}

func (p *sparser) parseExpr(min int) *Expr {
	lhs := p.parseUnary()
	for {
		t := p.peek()
		var op string
		if t.k == "op" {
			op = t.s
		} else if t.k == "id" && t.s == "in" {
			op = "in"
		}
		pr, ok := binPrec[op]
		if !ok || pr < min {
			return lhs
		}
		p.next()
		var rhs *Expr
		if op == "==>" { // right assoc
			rhs = p.parseExpr(pr)
		} else {
			rhs = p.parseExpr(pr + 1)
		}
		lhs = &Expr{Op: "bin", Name: op, Args: []*Expr{lhs, rhs}, Pos: p.pos}
	}
}

func (p *sparser) parseUnary() *Expr {
	if p.isOp("!") || p.isOp("-") {
		op := p.next().s
		x := p.parseUnary()
		return &Expr{Op: "un", Name: op, Args: []*Expr{x}, Pos: p.pos}
	}
	return p.parsePostfix(p.parsePrimary())
}

func (p *sparser) parseTypeName() string {
	// a type in a binder: sequence of id . id * [ ] until , or ::
	var sb strings.Builder
	depth := 0
	for !((p.isOp(",") && depth == 0) || p.isOp("::") || p.peek().k == "eof") {
		t := p.next().s
		if t == "(" {
			depth++
		} else if t == ")" {
			depth--
		}
		cur := sb.String()
		if cur != "" && t != ")" && !strings.HasSuffix(cur, "(") && depth > 0 {
			sb.WriteString(" ")
		}
		sb.WriteString(t)
	}
	return sb.String()
}

func (p *sparser) parsePrimary() *Expr {
	t := p.next()
	switch t.k {
	case "int":
		s := strings.ReplaceAll(t.s, "_", "")
		if strings.HasPrefix(s, "0x") {
			v, err := strconv.ParseUint(s[2:], 16, 64)
			if err != nil {
				panic(p.pos + ": bad hex literal " + t.s)
			}
			s = strconv.FormatUint(v, 10)
		}
		return &Expr{Op: "lit", Name: s, Pos: p.pos}
	case "str":
		return &Expr{Op: "str", Name: t.s, Pos: p.pos}
	case "id":
		if t.s == "forall" || t.s == "exists" {
			var bs []Binder
			for {
				n := p.next()
				if n.k != "id" {
					panic(p.pos + ": binder name expected")
				}
				ty := p.parseTypeName()
				bs = append(bs, Binder{n.s, ty})
				if p.isOp(",") {
					p.next()
					continue
				}
				break
			}
			p.expectOp("::")
			body := p.parseExpr(1)
			return &Expr{Op: t.s, Vars: bs, Args: []*Expr{body}, Pos: p.pos}
		}
		return &Expr{Op: "id", Name: t.s, Pos: p.pos}
	case "op":
		if t.s == "(" {
			e := p.parseExpr(1)
			p.expectOp(")")
			return e
		}
	}
	panic(fmt.Sprintf("%s: unexpected token %q", p.pos, t.s))
}

func (p *sparser) parsePostfix(e *Expr) *Expr {
	for {
		switch {
		case p.isOp("."):
			p.next()
			n := p.next()
			if n.k != "id" {
				panic(p.pos + ": field name expected after '.'")
			}
			e = &Expr{Op: "sel", Name: n.s, Args: []*Expr{e}, Pos: p.pos}
		case p.isOp("("):
			p.next()
			var args []*Expr
			for !p.isOp(")") {
				args = append(args, p.parseExpr(1))
				if p.isOp(",") {
					p.next()
				}
			}
			p.expectOp(")")
			name := ""
			switch e.Op {
			case "id":
				name = e.Name
			case "sel": // pkg.Type(x) conversion or qualified spec function
				name = e.Args[0].String() + "." + e.Name
			default:
				panic(p.pos + ": call of non-name")
			}
			e = &Expr{Op: "call", Name: name, Args: args, Pos: p.pos}
		case p.isOp("["):
			p.next()
			var lo, hi *Expr
			if p.isOp(":") {
				p.next()
				if !p.isOp("]") {
					hi = p.parseExpr(1)
				}
				p.expectOp("]")
				e = &Expr{Op: "slice", Args: []*Expr{e, nil, hi}, Pos: p.pos}
				continue
			}
			lo = p.parseExpr(1)
			if p.isOp(":") {
				p.next()
				if !p.isOp("]") {
					hi = p.parseExpr(1)
				}
				p.expectOp("]")
				e = &Expr{Op: "slice", Args: []*Expr{e, lo, hi}, Pos: p.pos}
				continue
			}
			if p.isOp(":=") {
				p.next()
				v := p.parseExpr(1)
				p.expectOp("]")
				e = &Expr{Op: "upd", Args: []*Expr{e, lo, v}, Pos: p.pos}
				continue
			}
			p.expectOp("]")
			e = &Expr{Op: "idx", Args: []*Expr{e, lo}, Pos: p.pos}
		default:
			return e
		}
	}
}

func parseSpecExpr(s, pos string) (e *Expr, err error) {
	defer func() {
		if r := recover(); r != nil {
			err = fmt.Errorf("%v", r)
		}
	}()
	toks, err := lexSpec(s)
	if err != nil {
		return nil, fmt.Errorf("%s: %v", pos, err)
	}
	p := &sparser{t: toks, pos: pos}
	e = p.parseExpr(1)
	if p.peek().k != "eof" {
		return nil, fmt.Errorf("%s: trailing tokens after expression: %q", pos, p.peek().s)
	}
	return e, nil
}

// ---------------------------------------------------------------- contracts

type Clause struct {
	Local bool // concrete-layer clause: not an obligation of callers in other packages (assumed there)
	Label string
	E     *Expr
	Pos   string
	Props []string // clause-level property tags (empty: inherits function's)
	Text  string
}

type GhostAssign struct {
	Anchor Anchor
	LHS    *Expr
	RHS    *Expr
	Pos    string
}

type Anchor struct {
	Kind   string // entry, return, latch (loop N), before, after (call callee#k)
	Loop   int
	Callee string
	Occ    int // -1: every occurrence
}

type AssertAt struct {
	Anchor Anchor
	C      Clause
	Assume bool // `assume at` is never accepted in /repo contracts; kept for ext only
}

type LoopSpec struct {
	Invs     []Clause
	Modifies []*Expr
	HasMod   bool
	Unroll   int
}

type Macro struct {
	Name   string
	Params []string
	Body   *Expr
}

type UnfoldAt struct {
	Anchor Anchor
	Call   *Expr
	Pos    string
}

type GhostVar struct {
	Name string
	Type string
	Init *Expr
}

type FuncSpec struct {
	Key       string // package-relative key: "Recv.Name" / "Name" ; ext: fn.String()
	PkgPath   string // package path of the contract file ("" for ext)
	Ext       bool
	ParamNms  []string // names given in the header (positional, receiver first if present)
	ResultNms []string
	Props     []string
	Requires  []Clause
	Ensures   []Clause
	Modifies  []*Expr
	HasMod    bool
	Loops     map[int]*LoopSpec
	GhostVars []GhostVar
	GhostAt   []GhostAssign
	Asserts   []AssertAt
	Pure      bool // no effect on modelled state (ext) – results constrained only by ensures
	Inline    bool
	Trusted   string // reason; body not verified
	Exclusive bool   // single-threaded by declaration (C16)
	Preserves []string
	NoPanic   bool
	Pos       string
	Fresh     []string // result names that are freshly allocated
	Acquires  []*Expr
	Releases  []*Expr
	Holds     []*Expr // requires held(lock)
	Raw       []string
	Macros    []Macro
	Unfolds   []UnfoldAt
	// abstract (refinement-gap) clauses: assumed at call sites, not proved for the body
	TrustedEnsures  []Clause
	TrustedModifies []*Expr
	TrustedWhy      string
	InternalEnsures []Clause       // proved for the body, not exported to callers (may mention ghost variables)
	VacuousOK       map[int]string // return ordinals (source order) expected to be unreachable under the contract
	Unguarded       []string       // "Type.field" reads exempt from guarded_by in this function (with reason)
	UnguardedWhy    []string
}

// merge appends the clauses of a second contract block for the same function (layers of the
// same contract may be written in different sections of a contract file).
func (f *FuncSpec) merge(g *FuncSpec) {
	if len(f.ParamNms) == 0 {
		f.ParamNms = g.ParamNms
	}
	if len(f.ResultNms) == 0 {
		f.ResultNms = g.ResultNms
	}
	for _, p := range g.Props {
		if !hasPropS(f.Props, p) {
			f.Props = append(f.Props, p)
		}
	}
	f.Requires = append(f.Requires, g.Requires...)
	f.Ensures = append(f.Ensures, g.Ensures...)
	f.InternalEnsures = append(f.InternalEnsures, g.InternalEnsures...)
	f.Modifies = append(f.Modifies, g.Modifies...)
	f.HasMod = f.HasMod || g.HasMod
	for k, v := range g.Loops {
		if old, ok := f.Loops[k]; ok {
			old.Invs = append(old.Invs, v.Invs...)
		} else {
			f.Loops[k] = v
		}
	}
	f.GhostVars = append(f.GhostVars, g.GhostVars...)
	f.GhostAt = append(f.GhostAt, g.GhostAt...)
	f.Asserts = append(f.Asserts, g.Asserts...)
	f.Pure = f.Pure || g.Pure
	f.Inline = f.Inline || g.Inline
	if g.Trusted != "" {
		f.Trusted = g.Trusted
	}
	f.Exclusive = f.Exclusive || g.Exclusive
	f.Preserves = append(f.Preserves, g.Preserves...)
	f.NoPanic = f.NoPanic || g.NoPanic
	f.Fresh = append(f.Fresh, g.Fresh...)
	f.Acquires = append(f.Acquires, g.Acquires...)
	f.Releases = append(f.Releases, g.Releases...)
	f.Holds = append(f.Holds, g.Holds...)
	f.Macros = append(f.Macros, g.Macros...)
	f.Unfolds = append(f.Unfolds, g.Unfolds...)
	f.TrustedEnsures = append(f.TrustedEnsures, g.TrustedEnsures...)
	f.TrustedModifies = append(f.TrustedModifies, g.TrustedModifies...)
	if g.TrustedWhy != "" {
		f.TrustedWhy = g.TrustedWhy
	}
	f.Unguarded = append(f.Unguarded, g.Unguarded...)
	f.UnguardedWhy = append(f.UnguardedWhy, g.UnguardedWhy...)
	for k, v := range g.VacuousOK {
		if f.VacuousOK == nil {
			f.VacuousOK = map[int]string{}
		}
		f.VacuousOK[k] = v
	}
}

func hasPropS(ps []string, p string) bool {
	for _, x := range ps {
		if x == p {
			return true
		}
	}
	return false
}

type TypeSpec struct {
	Name       string // package-relative type name
	PkgPath    string
	Invariants []Clause
	GhostFlds  []GhostVar
	Guarded    []GuardDecl
}

type GuardDecl struct {
	Fields []string
	Write  string // lock field expression relative to the object, e.g. "bucketLk" or "flushLock&bucketLk"
	Read   string
	Pos    string
}

type Lemma struct {
	Name  string
	E     *Expr
	Props []string
	Pos   string
	Using []string
	Text  string
}

type SpecFile struct {
	Footprints map[string][]*Expr
	Globals    []GhostGlobal
	Macros     []Macro
	Funcs      []*FuncSpec
	Types      []*TypeSpec
	Lemmas     []*Lemma
	Prel       []string // prelude names this file needs
}

type GhostGlobal struct {
	Name string
	Sort string
}

// annotationOnly: the contract carries no functional clauses (only tags such as exclusive /
// unguarded / property), so call sites may still inline the body.
func (f *FuncSpec) annotationOnly() bool {
	return len(f.Requires) == 0 && len(f.Ensures) == 0 && !f.HasMod && len(f.TrustedEnsures) == 0 && len(f.TrustedModifies) == 0 &&
		f.Trusted == "" && !f.Pure && len(f.Holds) == 0 && len(f.Acquires) == 0 && len(f.Releases) == 0 && len(f.Preserves) == 0 && len(f.Fresh) == 0
}

type SpecDB struct {
	Footprints map[string]map[string][]*Expr // package path -> name -> targets
	Globals    []GhostGlobal
	Macros     map[string][]Macro   // per package path
	Funcs      map[string]*FuncSpec // key: pkgpath + "::" + Key   (ext: "ext::" + fn.String())
	Types      map[string]*TypeSpec // pkgpath::Name
	Lemmas     []*Lemma
	Files      []string
}

func splitProps(s string) []string {
	f := strings.FieldsFunc(s, func(r rune) bool { return r == ',' || r == ' ' || r == '\t' })
	var out []string
	for _, x := range f {
		if x != "" {
			out = append(out, x)
		}
	}
	return out
}

// parseHeader parses `func (recv) Name(params) (results)` loosely, returning
// the key and the names of parameters and results.
func parseHeader(s, pos string) (key string, params, results []string, rest string, err error) {
	s = strings.TrimSpace(s)
	recvType := ""
	var recvName string
	if strings.HasPrefix(s, "(") {
		end := matchParen(s, 0)
		if end < 0 {
			return "", nil, nil, "", fmt.Errorf("%s: unbalanced receiver", pos)
		}
		r := strings.Fields(s[1:end])
		if len(r) == 2 {
			recvName = r[0]
			recvType = strings.TrimPrefix(r[1], "*")
		} else if len(r) == 1 {
			recvName = "$recv"
			recvType = strings.TrimPrefix(r[0], "*")
		}
		s = strings.TrimSpace(s[end+1:])
	}
	lp := strings.Index(s, "(")
	if lp < 0 {
		return "", nil, nil, "", fmt.Errorf("%s: missing parameter list", pos)
	}
	name := strings.TrimSpace(s[:lp])
	end := matchParen(s, lp)
	if end < 0 {
		return "", nil, nil, "", fmt.Errorf("%s: unbalanced parameter list", pos)
	}
	params = namesOf(s[lp+1 : end])
	if recvType != "" {
		key = recvType + "." + name
		params = append([]string{recvName}, params...)
	} else {
		key = name
	}
	s = strings.TrimSpace(s[end+1:])
	if strings.HasPrefix(s, "(") {
		e2 := matchParen(s, 0)
		if e2 < 0 {
			return "", nil, nil, "", fmt.Errorf("%s: unbalanced results", pos)
		}
		results = namesOf(s[1:e2])
		s = strings.TrimSpace(s[e2+1:])
	} else if s != "" && !strings.HasPrefix(s, "property") {
		// single unnamed result type
		f := strings.Fields(s)
		results = []string{"$ret0"}
		s = strings.TrimSpace(strings.TrimPrefix(s, f[0]))
	}
	return key, params, results, s, nil
}

func matchParen(s string, i int) int {
	d := 0
	for j := i; j < len(s); j++ {
		switch s[j] {
		case '(':
			d++
		case ')':
			d--
			if d == 0 {
				return j
			}
		}
	}
	return -1
}

// namesOf extracts the names from "a, b T, c []U" (types ignored). Entries
// consisting of a type only get positional names $retN by the caller.
func namesOf(s string) []string {
	s = strings.TrimSpace(s)
	if s == "" {
		return nil
	}
	var out []string
	depth := 0
	cur := ""
	flush := func() {
		f := strings.Fields(strings.TrimSpace(cur))
		if len(f) == 0 {
			out = append(out, "_")
		} else if len(f) == 1 && (strings.ContainsAny(f[0], ".*[]") || isBuiltinType(f[0])) {
			out = append(out, fmt.Sprintf("$ret%d", len(out)))
		} else {
			out = append(out, f[0])
		}
		cur = ""
	}
	for _, c := range s {
		switch c {
		case '(', '[':
			depth++
		case ')', ']':
			depth--
		}
		if c == ',' && depth == 0 {
			flush()
			continue
		}
		cur += string(c)
	}
	flush()
	return out
}

func isBuiltinType(s string) bool {
	switch s {
	case "int", "int8", "int16", "int32", "int64", "uint", "uint8", "uint16", "uint32", "uint64", "bool", "string", "error", "byte", "float64", "any":
		return true
	}
	return false
}

func parseAnchor(s, pos string) (Anchor, string, error) {
	// returns anchor and the remainder after ':'
	i := strings.Index(s, ":")
	if i < 0 {
		return Anchor{}, "", fmt.Errorf("%s: anchor needs ':'", pos)
	}
	a := strings.Fields(s[:i])
	rest := strings.TrimSpace(s[i+1:])
	if len(a) == 0 {
		return Anchor{}, "", fmt.Errorf("%s: empty anchor", pos)
	}
	switch a[0] {
	case "entry", "return":
		return Anchor{Kind: a[0]}, rest, nil
	case "loop":
		if len(a) == 3 && (a[2] == "latch" || a[2] == "head") {
			n, err := strconv.Atoi(a[1])
			if err != nil {
				return Anchor{}, "", fmt.Errorf("%s: bad loop number", pos)
			}
			return Anchor{Kind: a[2], Loop: n}, rest, nil
		}
	case "before", "after":
		if len(a) >= 3 && a[1] == "call" {
			callee := a[2]
			occ := -1
			if j := strings.LastIndex(callee, "#"); j >= 0 {
				n, err := strconv.Atoi(callee[j+1:])
				if err == nil {
					occ = n
					callee = callee[:j]
				}
			}
			return Anchor{Kind: a[0], Callee: callee, Occ: occ}, rest, nil
		}
	}
	return Anchor{}, "", fmt.Errorf("%s: bad anchor %q", pos, s[:i])
}

// label/props prefix of a clause:  [@label] [{C01,C02}] expr
func parseClause(s, pos string) (Clause, error) {
	c := Clause{Pos: pos}
	s = strings.TrimSpace(s)
	if strings.HasPrefix(s, "@") {
		j := strings.IndexAny(s, " \t")
		if j < 0 {
			return c, fmt.Errorf("%s: clause has label only", pos)
		}
		c.Label = s[1:j]
		s = strings.TrimSpace(s[j:])
	}
	if strings.HasPrefix(s, "{") {
		j := strings.Index(s, "}")
		if j < 0 {
			return c, fmt.Errorf("%s: unbalanced {", pos)
		}
		c.Props = splitProps(s[1:j])
		s = strings.TrimSpace(s[j+1:])
	}
	e, err := parseSpecExpr(s, pos)
	if err != nil {
		return c, err
	}
	c.E = e
	c.Text = s
	return c, nil
}

func parseExprList(s, pos string) ([]*Expr, error) {
	var out []*Expr
	depth := 0
	cur := ""
	flush := func() error {
		if strings.TrimSpace(cur) == "" {
			return nil
		}
		e, err := parseSpecExpr(cur, pos)
		if err != nil {
			return err
		}
		out = append(out, e)
		cur = ""
		return nil
	}
	for _, c := range s {
		switch c {
		case '(', '[':
			depth++
		case ')', ']':
			depth--
		}
		if c == ',' && depth == 0 {
			if err := flush(); err != nil {
				return nil, err
			}
			continue
		}
		cur += string(c)
	}
	if err := flush(); err != nil {
		return nil, err
	}
	return out, nil
}

// readSpecLines extracts the //@ lines of a file, joining continuation lines
// (a line starting with `//@ ...` whose content starts with `|` continues the
// previous clause).
func readSpecLines(path string) ([]string, []string, error) {
	data, err := os.ReadFile(path)
	if err != nil {
		return nil, nil, err
	}
	var lines, poss []string
	for i, ln := range strings.Split(string(data), "\n") {
		t := strings.TrimSpace(ln)
		if !strings.HasPrefix(t, "//@") {
			continue
		}
		t = strings.TrimSpace(t[3:])
		if t == "" {
			continue
		}
		if strings.HasPrefix(t, "|") && len(lines) > 0 {
			lines[len(lines)-1] += " " + strings.TrimSpace(t[1:])
			continue
		}
		lines = append(lines, t)
		poss = append(poss, fmt.Sprintf("%s:%d", path, i+1))
	}
	return lines, poss, nil
}

func parseSpecFile(path, pkgPath string, ext bool) (*SpecFile, error) {
	lines, poss, err := readSpecLines(path)
	if err != nil {
		return nil, err
	}
	sf := &SpecFile{}
	var cur *FuncSpec
	var curT *TypeSpec
	for i, ln := range lines {
		pos := poss[i]
		word, rest := splitWord(ln)
		switch word {
		case "func", "ext":
			if word == "ext" {
				w2, r2 := splitWord(rest)
				if w2 != "func" {
					return nil, fmt.Errorf("%s: expected 'ext func'", pos)
				}
				rest = r2
			}
			curT = nil
			var key string
			var params, results []string
			var tail string
			if word == "ext" {
				// ext func <fn.String()> (params) (results)
				// the callee name may contain parens e.g. (*os.File).ReadAt ; the name
				// ends at the first " (" after a non-paren token or at " :: ".
				j := strings.Index(rest, " :: ")
				if j < 0 {
					return nil, fmt.Errorf("%s: ext func needs `name :: (params) (results)`", pos)
				}
				key = strings.TrimSpace(rest[:j])
				_, params, results, tail, err = parseHeader("f"+strings.TrimSpace(rest[j+4:]), pos)
				if err != nil {
					return nil, err
				}
			} else {
				key, params, results, tail, err = parseHeader(rest, pos)
				if err != nil {
					return nil, err
				}
			}
			cur = &FuncSpec{Key: key, PkgPath: pkgPath, Ext: word == "ext", ParamNms: params, ResultNms: results, Loops: map[int]*LoopSpec{}, Pos: pos}
			if strings.HasPrefix(tail, "property") {
				cur.Props = splitProps(strings.TrimPrefix(tail, "property"))
			}
			sf.Funcs = append(sf.Funcs, cur)
			continue
		case "type":
			cur = nil
			name, r2 := splitWord(rest)
			curT = nil
			for _, t := range sf.Types {
				if t.Name == name {
					curT = t
				}
			}
			if curT == nil {
				curT = &TypeSpec{Name: name, PkgPath: pkgPath}
				sf.Types = append(sf.Types, curT)
			}
			if r2 != "" {
				if err := parseTypeClause(curT, r2, pos); err != nil {
					return nil, err
				}
			}
			continue
		case "lemma":
			cur, curT = nil, nil
			j := strings.Index(rest, ":")
			if j < 0 {
				return nil, fmt.Errorf("%s: lemma needs name:", pos)
			}
			name := strings.TrimSpace(rest[:j])
			body := strings.TrimSpace(rest[j+1:])
			lm := &Lemma{Name: name, Pos: pos}
			if k := strings.LastIndex(body, " property "); k >= 0 {
				lm.Props = splitProps(body[k+10:])
				body = body[:k]
			}
			if k := strings.LastIndex(body, " using "); k >= 0 {
				lm.Using = splitProps(body[k+7:])
				body = body[:k]
			}
			e, err := parseSpecExpr(body, pos)
			if err != nil {
				return nil, err
			}
			lm.E = e
			lm.Text = body
			sf.Lemmas = append(sf.Lemmas, lm)
			continue
		case "prelude":
			sf.Prel = append(sf.Prel, splitProps(rest)...)
			continue
		case "footprint":
			// footprint NAME = target, target, ...
			j := strings.Index(rest, "=")
			if j < 0 {
				return nil, fmt.Errorf("%s: footprint needs NAME = targets", pos)
			}
			es, err := parseExprList(rest[j+1:], pos)
			if err != nil {
				return nil, err
			}
			if sf.Footprints == nil {
				sf.Footprints = map[string][]*Expr{}
			}
			sf.Footprints[strings.TrimSpace(rest[:j])] = es
			continue
		case "ghost":
			if cur == nil && curT == nil {
				w2, r2 := splitWord(rest)
				if w2 != "global" {
					return nil, fmt.Errorf("%s: expected 'ghost global $name Sort'", pos)
				}
				n, srt := splitWord(r2)
				sf.Globals = append(sf.Globals, GhostGlobal{n, srt})
				continue
			}
		case "define", "macro":
			m, err := parseMacro(rest, pos)
			if err != nil {
				return nil, err
			}
			if cur != nil && word == "define" {
				cur.Macros = append(cur.Macros, m)
			} else {
				sf.Macros = append(sf.Macros, m)
			}
			continue
		}
		if curT != nil {
			if err := parseTypeClause(curT, ln, pos); err != nil {
				return nil, err
			}
			continue
		}
		if cur == nil {
			return nil, fmt.Errorf("%s: clause outside func/type block: %s", pos, ln)
		}
		cur.Raw = append(cur.Raw, ln)
		if err := parseFuncClause(cur, word, rest, pos, ext); err != nil {
			return nil, err
		}
	}
	return sf, nil
}

// parseMacro parses  NAME(p1, p2) = expr
func parseMacro(s, pos string) (Macro, error) {
	i := strings.Index(s, "(")
	j := matchParen(s, i)
	if i < 0 || j < 0 {
		return Macro{}, fmt.Errorf("%s: define needs NAME(params) = expr", pos)
	}
	m := Macro{Name: strings.TrimSpace(s[:i])}
	for _, p := range strings.Split(s[i+1:j], ",") {
		if p = strings.TrimSpace(p); p != "" {
			m.Params = append(m.Params, p)
		}
	}
	rest := strings.TrimSpace(s[j+1:])
	if !strings.HasPrefix(rest, "=") {
		return Macro{}, fmt.Errorf("%s: define needs '='", pos)
	}
	e, err := parseSpecExpr(rest[1:], pos)
	if err != nil {
		return Macro{}, err
	}
	m.Body = e
	return m, nil
}

func splitWord(s string) (string, string) {
	s = strings.TrimSpace(s)
	i := strings.IndexAny(s, " \t")
	if i < 0 {
		return s, ""
	}
	return s[:i], strings.TrimSpace(s[i:])
}

func parseTypeClause(t *TypeSpec, s, pos string) error {
	word, rest := splitWord(s)
	switch word {
	case "invariant":
		c, err := parseClause(rest, pos)
		if err != nil {
			return err
		}
		t.Invariants = append(t.Invariants, c)
	case "ghost":
		w2, r2 := splitWord(rest)
		if w2 != "field" {
			return fmt.Errorf("%s: expected 'ghost field'", pos)
		}
		n, ty := splitWord(r2)
		t.GhostFlds = append(t.GhostFlds, GhostVar{Name: n, Type: ty})
	case "guarded_by":
		// guarded_by f1,f2 : W [read R]
		j := strings.Index(rest, ":")
		if j < 0 {
			return fmt.Errorf("%s: guarded_by needs ':'", pos)
		}
		g := GuardDecl{Fields: splitProps(rest[:j]), Pos: pos}
		lk := strings.TrimSpace(rest[j+1:])
		if k := strings.Index(lk, " read "); k >= 0 {
			g.Read = strings.TrimSpace(lk[k+6:])
			lk = strings.TrimSpace(lk[:k])
		}
		g.Write = lk
		t.Guarded = append(t.Guarded, g)
	default:
		return fmt.Errorf("%s: unknown type clause %q", pos, word)
	}
	return nil
}

func parseFuncClause(f *FuncSpec, word, rest, pos string, ext bool) error {
	switch word {
	case "property":
		f.Props = append(f.Props, splitProps(rest)...)
	case "requires":
		c, err := parseClause(rest, pos)
		if err != nil {
			return err
		}
		f.Requires = append(f.Requires, c)
	case "ensures":
		c, err := parseClause(rest, pos)
		if err != nil {
			return err
		}
		f.Ensures = append(f.Ensures, c)
	case "modifies":
		es, err := parseExprList(rest, pos)
		if err != nil {
			return err
		}
		f.Modifies = append(f.Modifies, es...)
		f.HasMod = true
	case "local":
		w2, r2 := splitWord(rest)
		if w2 != "requires" {
			return fmt.Errorf("%s: expected 'local requires'", pos)
		}
		c, err := parseClause(r2, pos)
		if err != nil {
			return err
		}
		c.Local = true
		f.Requires = append(f.Requires, c)
	case "internal":
		w2, r2 := splitWord(rest)
		if w2 != "ensures" {
			return fmt.Errorf("%s: expected 'internal ensures'", pos)
		}
		c, err := parseClause(r2, pos)
		if err != nil {
			return err
		}
		f.InternalEnsures = append(f.InternalEnsures, c)
	case "abstract":
		// abstract ensures ... / abstract modifies ... / abstract gap NAME: reason
		w2, r2 := splitWord(rest)
		switch w2 {
		case "ensures":
			c, err := parseClause(r2, pos)
			if err != nil {
				return err
			}
			f.TrustedEnsures = append(f.TrustedEnsures, c)
		case "modifies":
			es, err := parseExprList(r2, pos)
			if err != nil {
				return err
			}
			f.TrustedModifies = append(f.TrustedModifies, es...)
		case "gap":
			f.TrustedWhy = r2
		default:
			return fmt.Errorf("%s: unknown abstract clause %q", pos, w2)
		}
	case "pure":
		f.Pure = true
	case "inline":
		f.Inline = true
	case "exclusive":
		f.Exclusive = true
		if rest != "" {
			f.UnguardedWhy = append(f.UnguardedWhy, "exclusive: "+rest)
		}
	case "unreachable":
		// unreachable return#N: reason   (the N-th return statement in source order)
		w, why := splitWord(rest)
		if !strings.HasPrefix(w, "return#") || why == "" {
			return fmt.Errorf("%s: expected 'unreachable return#N: reason'", pos)
		}
		n, err := strconv.Atoi(strings.TrimSuffix(strings.TrimPrefix(w, "return#"), ":"))
		if err != nil {
			return fmt.Errorf("%s: bad return ordinal", pos)
		}
		if f.VacuousOK == nil {
			f.VacuousOK = map[int]string{}
		}
		f.VacuousOK[n] = why
	case "unguarded":
		w, why := splitWord(rest)
		if why == "" {
			return fmt.Errorf("%s: unguarded needs Type.field and a reason", pos)
		}
		f.Unguarded = append(f.Unguarded, w)
		f.UnguardedWhy = append(f.UnguardedWhy, "unguarded "+w+": "+why)
	case "nopanic":
		f.NoPanic = true
	case "trusted":
		if rest == "" {
			return fmt.Errorf("%s: trusted needs a reason", pos)
		}
		f.Trusted = rest
	case "preserves":
		f.Preserves = append(f.Preserves, splitProps(rest)...)
	case "fresh":
		f.Fresh = append(f.Fresh, splitProps(rest)...)
	case "acquires", "releases", "holds":
		es, err := parseExprList(rest, pos)
		if err != nil {
			return err
		}
		switch word {
		case "acquires":
			f.Acquires = append(f.Acquires, es...)
		case "releases":
			f.Releases = append(f.Releases, es...)
		default:
			f.Holds = append(f.Holds, es...)
		}
	case "loop":
		ns, r2 := splitWord(rest)
		n, err := strconv.Atoi(ns)
		if err != nil {
			return fmt.Errorf("%s: bad loop number %q", pos, ns)
		}
		ls := f.Loops[n]
		if ls == nil {
			ls = &LoopSpec{}
			f.Loops[n] = ls
		}
		w3, r3 := splitWord(r2)
		switch w3 {
		case "invariant":
			c, err := parseClause(r3, pos)
			if err != nil {
				return err
			}
			ls.Invs = append(ls.Invs, c)
		case "modifies":
			es, err := parseExprList(r3, pos)
			if err != nil {
				return err
			}
			ls.Modifies = append(ls.Modifies, es...)
			ls.HasMod = true
		case "unroll":
			k, err := strconv.Atoi(r3)
			if err != nil {
				return fmt.Errorf("%s: bad unroll count", pos)
			}
			ls.Unroll = k
		default:
			return fmt.Errorf("%s: unknown loop clause %q", pos, w3)
		}
	case "ghost":
		w2, r2 := splitWord(rest)
		switch w2 {
		case "var":
			// ghost var name type = init
			n, r3 := splitWord(r2)
			j := strings.Index(r3, "=")
			if j < 0 {
				return fmt.Errorf("%s: ghost var needs '= init'", pos)
			}
			ty := strings.TrimSpace(r3[:j])
			e, err := parseSpecExpr(r3[j+1:], pos)
			if err != nil {
				return err
			}
			f.GhostVars = append(f.GhostVars, GhostVar{Name: n, Type: ty, Init: e})
		case "at":
			a, r3, err := parseAnchor(r2, pos)
			if err != nil {
				return err
			}
			j := strings.Index(r3, "=")
			if j < 0 {
				return fmt.Errorf("%s: ghost at needs 'lhs = rhs'", pos)
			}
			l, err := parseSpecExpr(r3[:j], pos)
			if err != nil {
				return err
			}
			r, err := parseSpecExpr(r3[j+1:], pos)
			if err != nil {
				return err
			}
			f.GhostAt = append(f.GhostAt, GhostAssign{Anchor: a, LHS: l, RHS: r, Pos: pos})
		default:
			return fmt.Errorf("%s: unknown ghost clause", pos)
		}
	case "unfold":
		w2, r2 := splitWord(rest)
		if w2 != "at" {
			return fmt.Errorf("%s: expected 'unfold at <anchor>: f(args)'", pos)
		}
		a, r3, err := parseAnchor(r2, pos)
		if err != nil {
			return err
		}
		e, err := parseSpecExpr(r3, pos)
		if err != nil {
			return err
		}
		if e.Op != "call" {
			return fmt.Errorf("%s: unfold needs a call f(args)", pos)
		}
		f.Unfolds = append(f.Unfolds, UnfoldAt{Anchor: a, Call: e, Pos: pos})
	case "assert", "assume":
		w2, r2 := splitWord(rest)
		if w2 != "at" {
			return fmt.Errorf("%s: expected '%s at <anchor>: expr'", pos, word)
		}
		a, r3, err := parseAnchor(r2, pos)
		if err != nil {
			return err
		}
		c, err := parseClause(r3, pos)
		if err != nil {
			return err
		}
		if word == "assume" && !ext && !strings.HasPrefix(c.Label, "format-") {
			// the only assumption accepted on /repo code is a well-formedness condition on data read
			// from a file (an input invariant); it is reported with the run's assumptions
			return fmt.Errorf("%s: 'assume' is not accepted in contracts on /repo code (except @format-... input invariants)", pos)
		}
		f.Asserts = append(f.Asserts, AssertAt{Anchor: a, C: c, Assume: word == "assume"})
	default:
		return fmt.Errorf("%s: unknown clause %q", pos, word)
	}
	return nil
}

// loadSpecs reads all contract files: verif_contracts*.go under repo (package
// path derived from the module path) and *.spec under extDir.
func loadSpecs(repo, modPath, extDir string) (*SpecDB, error) {
	db := &SpecDB{Funcs: map[string]*FuncSpec{}, Types: map[string]*TypeSpec{}, Macros: map[string][]Macro{}, Footprints: map[string]map[string][]*Expr{}}
	var files []string
	filepath.Walk(repo, func(p string, info os.FileInfo, err error) error {
		if err != nil {
			return nil
		}
		if info.IsDir() && (info.Name() == ".git" || info.Name() == "vendor") {
			return filepath.SkipDir
		}
		if !info.IsDir() && strings.HasPrefix(info.Name(), "verif_contracts") && strings.HasSuffix(info.Name(), ".go") {
			files = append(files, p)
		}
		return nil
	})
	sort.Strings(files)
	for _, f := range files {
		rel, _ := filepath.Rel(repo, filepath.Dir(f))
		pkg := modPath
		if rel != "." {
			pkg = modPath + "/" + filepath.ToSlash(rel)
		}
		sf, err := parseSpecFile(f, pkg, false)
		if err != nil {
			return nil, err
		}
		db.add(sf, pkg)
		db.Files = append(db.Files, f)
	}
	exts, _ := filepath.Glob(filepath.Join(extDir, "*.spec"))
	sort.Strings(exts)
	for _, f := range exts {
		sf, err := parseSpecFile(f, "", true)
		if err != nil {
			return nil, err
		}
		db.add(sf, "ext")
		db.Files = append(db.Files, f)
	}
	return db, nil
}

func (db *SpecDB) add(sf *SpecFile, pkg string) {
	db.Globals = append(db.Globals, sf.Globals...)
	for n, es := range sf.Footprints {
		if db.Footprints[pkg] == nil {
			db.Footprints[pkg] = map[string][]*Expr{}
		}
		db.Footprints[pkg][n] = es
	}
	db.Macros[pkg] = append(db.Macros[pkg], sf.Macros...)
	for _, f := range sf.Funcs {
		k := pkg + "::" + f.Key
		if f.Ext {
			k = "ext::" + f.Key
		}
		if old, ok := db.Funcs[k]; ok && !f.Ext {
			old.merge(f)
			continue
		}
		db.Funcs[k] = f
	}
	for _, t := range sf.Types {
		k := pkg + "::" + t.Name
		if strings.Contains(t.Name, "::") {
			k = t.Name
		}
		if old, ok := db.Types[k]; ok {
			old.Invariants = append(old.Invariants, t.Invariants...)
			old.GhostFlds = append(old.GhostFlds, t.GhostFlds...)
			old.Guarded = append(old.Guarded, t.Guarded...)
		} else {
			db.Types[k] = t
		}
	}
	db.Lemmas = append(db.Lemmas, sf.Lemmas...)
}
