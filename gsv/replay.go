package main

// Counterexample replay (DESIGN.md §2.11): when a solver refutes a postcondition of a function
// whose parameters and results are all scalars (integers, booleans), the model's argument values
// are run through the real function (an in-package test injected with `go test -overlay`, nothing
// is written to the repository), and the postcondition is then evaluated on the real inputs and
// the real outputs. The violation is "confirmed" only if the real outputs falsify the clause.

import (
	"context"
	"encoding/json"
	"fmt"
	"go/types"
	"os"
	"os/exec"
	"path/filepath"
	"regexp"
	"strings"
	"time"
)

func scalarType(t types.Type) bool {
	b, ok := t.Underlying().(*types.Basic)
	if !ok {
		return false
	}
	return b.Info()&types.IsInteger != 0 || b.Info()&types.IsBoolean != 0
}

var reModelDef = regexp.MustCompile(`\(define-fun\s+(\|[^|]*\||[^\s()]+)\s+\(\)\s+(Int|Bool)\s+(\(-\s*\d+\)|-?\d+|true|false)\)`)

func parseModel(model string) map[string]string {
	out := map[string]string{}
	for _, m := range reModelDef.FindAllStringSubmatch(strings.ReplaceAll(model, "\n", " "), -1) {
		v := m[3]
		if strings.HasPrefix(v, "(-") {
			v = "-" + strings.TrimSpace(strings.Trim(v[2:], " )"))
		}
		out[strings.Trim(m[1], "|")] = v
	}
	return out
}

// tryReplay returns (confirmed, report text). attempted=false when the function is not replayable.
func tryReplay(eng *Engine, o options, c *FnCtx, ob *Obligation, dir string) (confirmed bool, attempted bool, text string) {
	if c == nil || c.fn == nil || c.spec == nil || ob.Kind != "ensures" || ob.Result.Verdict == "unsat" {
		return false, false, ""
	}
	fn := c.fn
	sig := fn.Signature
	if sig.Recv() != nil || fn.Pkg == nil || len(fn.FreeVars) > 0 {
		return false, false, ""
	}
	for i := 0; i < sig.Params().Len(); i++ {
		if !scalarType(sig.Params().At(i).Type()) {
			return false, false, ""
		}
	}
	if sig.Results().Len() == 0 {
		return false, false, ""
	}
	for i := 0; i < sig.Results().Len(); i++ {
		if !scalarType(sig.Results().At(i).Type()) {
			return false, false, ""
		}
	}
	// the failing clause
	var clause *Clause
	for i := range c.spec.Ensures {
		en := &c.spec.Ensures[i]
		if strings.HasSuffix(ob.Name, "#ensures:"+clauseName(*en, i)) {
			clause = en
		}
	}
	if clause == nil {
		return false, false, ""
	}
	model := parseModel(ob.Result.Model)
	pnames := formalNames(c.spec, sig, fn, sig.Params().Len())
	imports := map[string]string{}
	qual := func(p *types.Package) string {
		if p == fn.Pkg.Pkg {
			return ""
		}
		imports[p.Path()] = p.Name()
		return p.Name()
	}
	np := sig.Params().Len()
	// candidate inputs: the solver's model (if it gave one), then a grid of boundary values.
	// Any candidate is acceptable: a violation is only reported as confirmed when the real code,
	// run on the candidate, produces outputs that falsify the clause.
	var cands [][]string
	if len(model) > 0 {
		var mv []string
		for i := 0; i < np; i++ {
			p := sig.Params().At(i)
			val := ""
			for k, v := range model {
				if strings.HasPrefix(k, "p."+p.Name()+"!") {
					val = v
				}
			}
			if val == "" {
				val = "0"
				if b := p.Type().Underlying().(*types.Basic); b.Info()&types.IsBoolean != 0 {
					val = "false"
				}
			}
			mv = append(mv, val)
		}
		cands = append(cands, mv)
	}
	grid := []string{"0", "1", "2", "3", "4", "5", "7", "8", "9", "12", "16", "100", "1023", "1024", "1025", "65536", "1073741823", "1073741824", "1073741828", "2147483647", "2147483648", "4294967295", "4294967296", "4294967300", "9223372036854775807", "18446744073709551615", "-1", "-4"}
	if np >= 3 {
		grid = []string{"0", "1", "3", "4", "5", "8", "100", "1024", "1073741824", "4294967295", "4294967296", "-1"}
	}
	var perParam [][]string
	for i := 0; i < np; i++ {
		t := sig.Params().At(i).Type()
		b := t.Underlying().(*types.Basic)
		if b.Info()&types.IsBoolean != 0 {
			perParam = append(perParam, []string{"false", "true"})
			continue
		}
		var vs []string
		for _, g := range grid {
			if rangeOK(g, t) {
				vs = append(vs, g)
			}
		}
		perParam = append(perParam, vs)
	}
	var rec func(i int, cur []string)
	rec = func(i int, cur []string) {
		if len(cands) > 4000 {
			return
		}
		if i == np {
			cands = append(cands, append([]string(nil), cur...))
			return
		}
		for _, v := range perParam[i] {
			rec(i+1, append(cur, v))
		}
	}
	rec(0, nil)
	var rs, fmts []string
	for i := 0; i < sig.Results().Len(); i++ {
		rs = append(rs, fmt.Sprintf("r%d", i))
		fmts = append(fmts, "%v")
	}
	// argument expressions need the imports to be known: render types first
	var ptypes []string
	for i := 0; i < np; i++ {
		ptypes = append(ptypes, types.TypeString(sig.Params().At(i).Type(), qual))
	}
	var sb strings.Builder
	sb.WriteString("package " + fn.Pkg.Pkg.Name() + "\n\nimport (\n\t\"fmt\"\n\t\"testing\"\n")
	for path := range imports {
		sb.WriteString("\t\"" + path + "\"\n")
	}
	sb.WriteString(")\n\nfunc TestGsvReplay(t *testing.T) {\n")
	sb.WriteString("\trun := func(i int, f func()) {\n\t\tdefer func() {\n\t\t\tif r := recover(); r != nil {\n\t\t\t\tfmt.Printf(\"GSV-PANIC %d %v\\n\", i, r)\n\t\t\t}\n\t\t}()\n\t\tf()\n\t}\n")
	for ci, cv := range cands {
		var args []string
		for i := 0; i < np; i++ {
			v := cv[i]
			if ptypes[i] == "bool" {
				args = append(args, v)
			} else if strings.HasPrefix(v, "-") {
				args = append(args, ptypes[i]+"("+v+")")
			} else {
				args = append(args, ptypes[i]+"("+v+")")
			}
		}
		sb.WriteString(fmt.Sprintf("\trun(%d, func() {\n\t\t%s := %s(%s)\n\t\tfmt.Printf(\"GSV-REPLAY %d %s\\n\", %s)\n\t})\n", ci, strings.Join(rs, ", "), fn.Name(), strings.Join(args, ", "), ci, strings.Join(fmts, " "), strings.Join(rs, ", ")))
	}
	sb.WriteString("}\n")
	pkgDir := filepath.Dir(eng.fset.Position(fn.Pos()).Filename)
	os.MkdirAll(dir, 0o755)
	base := strings.Map(func(r rune) rune {
		if r >= 'a' && r <= 'z' || r >= 'A' && r <= 'Z' || r >= '0' && r <= '9' {
			return r
		}
		return '_'
	}, ob.Name)
	testSrc := filepath.Join(dir, base+"_replay_test.go")
	if os.WriteFile(testSrc, []byte(sb.String()), 0o644) != nil {
		return false, false, ""
	}
	ov, _ := json.Marshal(map[string]any{"Replace": map[string]string{filepath.Join(pkgDir, "zz_gsv_replay_test.go"): testSrc}})
	ovPath := filepath.Join(dir, base+"_overlay.json")
	os.WriteFile(ovPath, ov, 0o644)
	ctx, cancel := context.WithTimeout(context.Background(), 180*time.Second)
	defer cancel()
	cmd := exec.CommandContext(ctx, "go", "test", "-overlay", ovPath, "-v", "-vet=off", "-count=1", "-timeout", "120s", "-run", "^TestGsvReplay$", ".")
	cmd.Dir = pkgDir
	env := []string{"GOFLAGS=-mod=mod", "GOPROXY=off"}
	for _, e := range os.Environ() {
		if !strings.HasPrefix(e, "GOFLAGS=") && !strings.HasPrefix(e, "GOPROXY=") && !strings.HasPrefix(e, "GOTOOLCHAIN=") && !strings.HasPrefix(e, "PATH=") {
			env = append(env, e)
		}
	}
	// the repository's own toolchain (default go), not the one gsv is built with
	env = append(env, "PATH="+strings.ReplaceAll(os.Getenv("PATH"), "/opt/veriftools/go1.26.8/bin:", ""))
	cmd.Env = env
	outB, _ := cmd.CombinedOutput()
	out := string(outB)
	text = fmt.Sprintf("replay: %d candidate inputs for %s run on the real code (go test -overlay; test source %s)\n", len(cands), fn.Name(), testSrc)
	actual := map[int][]string{}
	for _, ln := range strings.Split(out, "\n") {
		if i := strings.Index(ln, "GSV-REPLAY "); i >= 0 {
			fs := strings.Fields(ln[i:])
			var idx int
			if len(fs) >= 2 {
				fmt.Sscanf(fs[1], "%d", &idx)
				actual[idx] = fs[2:]
			}
		}
	}
	if len(actual) == 0 {
		return false, true, text + "replay: the test did not produce results:\n" + truncate(out, 1500) + "\n"
	}
	// evaluate requires && !clause on the real inputs and outputs, all candidates in one script
	lc := eng.newFnCtx(nil, nil)
	lc.funcName = "replay." + fn.Name()
	st := &State{cells: map[cellKey]Val{}, heap: map[string]string{}, ghost: map[string]Val{}}
	st.alloc = "0"
	mk := func(t types.Type, v string) Val {
		if b := t.Underlying().(*types.Basic); b.Info()&types.IsBoolean != 0 {
			return mkBool(v)
		}
		if strings.HasPrefix(v, "-") {
			v = "(- " + v[1:] + ")"
		}
		return mkInt(v, t)
	}
	// one query for all candidates: flag_i <=> (preconditions_i && !clause_i)
	type candEval struct {
		ci        int
		req, goal string
	}
	var evals []candEval
	for ci, cv := range cands {
		res, ok := actual[ci]
		if !ok || len(res) != sig.Results().Len() {
			continue
		}
		envv := &Env{c: lc, st: st, old: st, vars: map[string]Val{}, pkg: fn.Pkg.Pkg, macros: c.spec.Macros}
		for i := 0; i < np; i++ {
			n := sig.Params().At(i).Name()
			if i < len(pnames) && pnames[i] != "" && pnames[i] != "_" {
				n = pnames[i]
			}
			envv.vars[n] = mk(sig.Params().At(i).Type(), cv[i])
			envv.vars[sig.Params().At(i).Name()] = envv.vars[n]
		}
		for i := 0; i < sig.Results().Len(); i++ {
			if i < len(c.spec.ResultNms) {
				envv.vars[c.spec.ResultNms[i]] = mk(sig.Results().At(i).Type(), res[i])
			}
		}
		var reqs []string
		bad := false
		for _, r := range c.spec.Requires {
			envr := *envv
			envr.old = nil
			t, err := envr.evalBool(r.E)
			if err != nil {
				bad = true
				break
			}
			reqs = append(reqs, t)
		}
		if bad {
			continue
		}
		goal, err := envv.evalBool(clause.E)
		if err != nil {
			return false, true, text + "replay: the clause could not be evaluated on concrete values: " + err.Error() + "\n"
		}
		evals = append(evals, candEval{ci, sAnd(reqs...), goal})
	}
	if len(evals) == 0 {
		return false, true, text + "replay: no candidate could be evaluated\n"
	}
	// evaluate by simplification: for concrete integers the terms reduce to true/false
	var qb strings.Builder
	qb.WriteString(strings.Join(lc.sc.lines, "\n") + "\n")
	for _, e := range evals {
		qb.WriteString(fmt.Sprintf("(simplify (and %s (not %s)))\n(simplify (and %s %s))\n", e.req, e.goal, e.req, e.goal))
	}
	body := qb.String()
	prel, _ := eng.preludeFor(body, false)
	qf := filepath.Join(dir, base+"_replay.smt2")
	os.WriteFile(qf, []byte(prel+body), 0o644)
	sctx, scancel := context.WithTimeout(context.Background(), 120*time.Second)
	defer scancel()
	sout, _ := exec.CommandContext(sctx, "z3-new", "-smt2", qf).CombinedOutput()
	var lines []string
	for _, ln := range strings.Split(string(sout), "\n") {
		ln = strings.TrimSpace(ln)
		if ln != "" {
			lines = append(lines, ln)
		}
	}
	if len(lines) != 2*len(evals) {
		return false, true, text + fmt.Sprintf("replay: undecided - the evaluation script returned %d answers for %d candidates (%s)\n", len(lines), len(evals), qf)
	}
	for k, e := range evals {
		if lines[2*k] == "true" && lines[2*k+1] == "false" {
			return true, true, text + fmt.Sprintf("replay: CONFIRMED - %s(%s) = %s on the real code; the preconditions hold and the clause `%s` is false for these values (evaluation script %s, candidate %d)\n", fn.Name(), strings.Join(cands[e.ci], ", "), strings.Join(actual[e.ci], ", "), clause.Text, qf, k)
		}
	}
	return false, true, text + fmt.Sprintf("replay: not confirmed - none of the %d candidates that were run falsifies the clause on the real code\n", len(evals))
}

func rangeOK(v string, t types.Type) bool {
	ii, ok := intInfoOf(t)
	if !ok {
		return false
	}
	neg := strings.HasPrefix(v, "-")
	if neg && !ii.signed {
		return false
	}
	digits := strings.TrimPrefix(v, "-")
	max := map[int]string{8: "255", 16: "65535", 32: "4294967295", 64: "18446744073709551615"}[ii.bits]
	if ii.signed {
		max = map[int]string{8: "127", 16: "32767", 32: "2147483647", 64: "9223372036854775807"}[ii.bits]
	}
	if len(digits) != len(max) {
		return len(digits) < len(max)
	}
	return digits <= max
}
