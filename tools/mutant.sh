#!/bin/sh
# usage: tools/mutant.sh <patch.diff> <property id> [tier]
# Applies the patch to a scratch worktree of /repo (outside /repo and /verif), runs the
# property check against the copy, prints the outcome and removes the copy.
set -u
patch="$(realpath "$1")"; prop="$2"; tier="${3:-quick}"
base="${TMPDIR:-/tmp}/gsv-mut-$$"
mkdir -p "$base"
git -C /repo worktree add --detach "$base/repo" HEAD >/dev/null 2>&1 || { echo "cannot create worktree"; exit 2; }
# carry over uncommitted contract edits of the working tree
(cd /repo && git diff HEAD -- '*verif_contracts*.go' ; git -C /repo ls-files --others --exclude-standard -- '*verif_contracts*.go' | while read f; do mkdir -p "$base/repo/$(dirname "$f")"; cp "/repo/$f" "$base/repo/$f"; done) > "$base/contracts.diff"
[ -s "$base/contracts.diff" ] && git -C "$base/repo" apply "$base/contracts.diff" 2>/dev/null
if ! git -C "$base/repo" apply "$patch"; then echo "PATCH-DOES-NOT-APPLY"; rc=3; else
  /verif/bin/gsv check -repo "$base/repo" -verif /verif -out "$base/out" -prop "$prop" -tier "$tier" | sed "s|$base/repo|/repo|g" | grep -E "^(VIOLATION|KNOWN|ENGINE|gsv:)" | cut -c1-260
  rc=$?
fi
git -C /repo worktree remove --force "$base/repo" >/dev/null 2>&1
rm -rf "$base"
exit 0
