#!/bin/sh
# usage: tools/regress.sh [tier]  - runs every claimed check once and prints the summary lines
cd "$(dirname "$0")/.."
for id in $(python3 -c "import json;print(' '.join(c['property_id'] for c in json.load(open('MANIFEST.json'))['checks']))"); do
  ./check $id ${1:-quick} 2>&1 | grep -E "^(VIOLATION|KNOWN-FINDING|gsv:)" | cut -c1-220
done
