package main

// Symbolic values and the flattening of Go types into SMT leaves.

import (
	"fmt"
	"go/types"
	"math/big"
	"strings"

	"golang.org/x/tools/go/ssa"
)

type Kind int

const (
	KInt Kind = iota
	KBool
	KStr
	KRef    // pointers to heap objects, maps, chans
	KFunc   // func values
	KSlice  // Fs = arr, off, len, cap
	KStruct // Fs = fields
	KArray  // Fs = elements (small arrays only)
	KIface  // Fs = tag, pay
	KTuple  // Fs = components
	KLoc    // static location descriptor
	KOpaque // spec-level value of a prelude sort
	KUnit   // no value
	KPoison // value that could not be modelled; any use is an error
)

type Val struct {
	K     Kind
	T     string
	Fs    []Val
	Ty    types.Type
	Sort  string
	Loc   *Loc
	Fn    *ssa.Function
	Binds []Val
	Why   string // for KPoison
}

type LocKind int

const (
	LCell  LocKind = iota // promoted local
	LField                // field (path) of heap struct object Base of root type Root
	LElem                 // element Idx (absolute) of array object Base, optional path into a struct element
	LHeap                 // heap cell of non-struct type
)

type Loc struct {
	Kind  LocKind
	Cell  ssa.Value // *ssa.Alloc or *ssa.FreeVar standing for a cell
	Path  []int     // field indices (LCell: into the cell value; LField: from Root; LElem: into element)
	Base  string
	Root  types.Type // LField: named struct type of the object; LElem: element type
	Idx   string
	Ty    types.Type // type of the pointee
	Frame int        // executor frame id the cell belongs to
}

func (l *Loc) String() string {
	return fmt.Sprintf("loc{%d %v %s %v %s}", l.Kind, l.Path, l.Base, l.Root, l.Idx)
}

func mkInt(t string, ty types.Type) Val  { return Val{K: KInt, T: t, Ty: ty} }
func mkBool(t string) Val                { return Val{K: KBool, T: t, Ty: types.Typ[types.Bool]} }
func mkRef(t string, ty types.Type) Val  { return Val{K: KRef, T: t, Ty: ty} }
func poison(why string) Val              { return Val{K: KPoison, Why: why} }
func mkOpaque(t string, sort string) Val { return Val{K: KOpaque, T: t, Sort: sort} }

// kindOf maps a Go type to the kind of its symbolic value.
func kindOf(t types.Type) Kind {
	switch u := t.Underlying().(type) {
	case *types.Basic:
		switch {
		case u.Info()&types.IsBoolean != 0:
			return KBool
		case u.Info()&types.IsString != 0:
			return KStr
		case u.Kind() == types.UnsafePointer:
			return KRef
		case u.Kind() == types.UntypedNil:
			return KRef
		default:
			return KInt // integers and (opaque) floats
		}
	case *types.Pointer, *types.Map, *types.Chan:
		return KRef
	case *types.Signature:
		return KFunc
	case *types.Slice:
		return KSlice
	case *types.Struct:
		return KStruct
	case *types.Array:
		return KArray
	case *types.Interface:
		return KIface
	case *types.Tuple:
		return KTuple
	}
	return KPoison
}

type leaf struct {
	path string
	sort string
	ty   types.Type // Go type of the leaf when it is a Go scalar (for range facts)
	role string     // "", "arr","off","len","cap","tag","pay"
}

const maxArrayLen = 8

// leavesOf lists the SMT leaves of a Go type.
func leavesOf(t types.Type) []leaf {
	var out []leaf
	var rec func(t types.Type, p string)
	rec = func(t types.Type, p string) {
		switch kindOf(t) {
		case KInt, KStr, KRef, KFunc:
			out = append(out, leaf{p, "Int", t, ""})
		case KBool:
			out = append(out, leaf{p, "Bool", t, ""})
		case KSlice:
			for _, r := range []string{"arr", "off", "len", "cap"} {
				out = append(out, leaf{p + "." + r, "Int", t, r})
			}
		case KIface:
			out = append(out, leaf{p + ".tag", "Int", t, "tag"}, leaf{p + ".pay", "Int", t, "pay"})
		case KStruct:
			st := t.Underlying().(*types.Struct)
			for i := 0; i < st.NumFields(); i++ {
				rec(st.Field(i).Type(), p+"."+st.Field(i).Name())
			}
		case KArray:
			at := t.Underlying().(*types.Array)
			if at.Len() > maxArrayLen {
				out = append(out, leaf{p + ".$bigarray", "Int", t, "big"})
				return
			}
			for i := int64(0); i < at.Len(); i++ {
				rec(at.Elem(), fmt.Sprintf("%s.%d", p, i))
			}
		case KTuple:
			tt := t.(*types.Tuple)
			for i := 0; i < tt.Len(); i++ {
				rec(tt.At(i).Type(), fmt.Sprintf("%s.#%d", p, i))
			}
		default:
			out = append(out, leaf{p + ".$unsupported", "Int", t, "bad"})
		}
	}
	rec(t, "")
	return out
}

// buildVal constructs a value of type t from a function giving each leaf term.
func buildVal(t types.Type, get func(l leaf) string) Val {
	var rec func(t types.Type, p string) Val
	rec = func(t types.Type, p string) Val {
		k := kindOf(t)
		switch k {
		case KInt, KStr, KRef, KFunc:
			return Val{K: k, T: get(leaf{p, "Int", t, ""}), Ty: t}
		case KBool:
			return Val{K: KBool, T: get(leaf{p, "Bool", t, ""}), Ty: t}
		case KSlice:
			v := Val{K: KSlice, Ty: t}
			for _, r := range []string{"arr", "off", "len", "cap"} {
				v.Fs = append(v.Fs, Val{K: KInt, T: get(leaf{p + "." + r, "Int", t, r}), Ty: types.Typ[types.Int]})
			}
			return v
		case KIface:
			return Val{K: KIface, Ty: t, Fs: []Val{
				{K: KInt, T: get(leaf{p + ".tag", "Int", t, "tag"}), Ty: types.Typ[types.Int]},
				{K: KInt, T: get(leaf{p + ".pay", "Int", t, "pay"}), Ty: types.Typ[types.Int]}}}
		case KStruct:
			st := t.Underlying().(*types.Struct)
			v := Val{K: KStruct, Ty: t}
			for i := 0; i < st.NumFields(); i++ {
				v.Fs = append(v.Fs, rec(st.Field(i).Type(), p+"."+st.Field(i).Name()))
			}
			return v
		case KArray:
			at := t.Underlying().(*types.Array)
			if at.Len() > maxArrayLen {
				return poison("array too large: " + t.String())
			}
			v := Val{K: KArray, Ty: t}
			for i := int64(0); i < at.Len(); i++ {
				v.Fs = append(v.Fs, rec(at.Elem(), fmt.Sprintf("%s.%d", p, i)))
			}
			return v
		case KTuple:
			tt := t.(*types.Tuple)
			v := Val{K: KTuple, Ty: t}
			for i := 0; i < tt.Len(); i++ {
				v.Fs = append(v.Fs, rec(tt.At(i).Type(), fmt.Sprintf("%s.#%d", p, i)))
			}
			return v
		}
		return poison("unsupported type " + t.String())
	}
	return rec(t, "")
}

// flatten lists the leaf terms of a value in the order of leavesOf(v.Ty).
func flatten(v Val) []string {
	switch v.K {
	case KInt, KBool, KStr, KRef, KFunc, KOpaque:
		return []string{v.T}
	case KSlice, KStruct, KArray, KIface, KTuple:
		var out []string
		for _, f := range v.Fs {
			out = append(out, flatten(f)...)
		}
		return out
	case KUnit:
		return nil
	}
	return []string{"$poison"}
}

func hasPoison(v Val) bool {
	if v.K == KPoison {
		return true
	}
	for _, f := range v.Fs {
		if hasPoison(f) {
			return true
		}
	}
	return false
}

// rebuild makes a value shaped like proto from the given leaf terms.
func rebuild(proto Val, ls []string) (Val, []string) {
	switch proto.K {
	case KInt, KBool, KStr, KRef, KFunc, KOpaque:
		v := proto
		v.T = ls[0]
		if proto.K == KFunc && ls[0] != proto.T {
			v.Fn = nil
			v.Binds = nil
		}
		return v, ls[1:]
	case KSlice, KStruct, KArray, KIface, KTuple:
		v := proto
		v.Fs = make([]Val, len(proto.Fs))
		for i, f := range proto.Fs {
			v.Fs[i], ls = rebuild(f, ls)
		}
		return v, ls
	case KUnit:
		return proto, ls
	}
	return proto, ls[1:]
}

func leafSorts(v Val) []string {
	switch v.K {
	case KBool:
		return []string{"Bool"}
	case KOpaque:
		return []string{v.Sort}
	case KInt, KStr, KRef, KFunc:
		return []string{"Int"}
	case KSlice, KStruct, KArray, KIface, KTuple:
		var out []string
		for _, f := range v.Fs {
			out = append(out, leafSorts(f)...)
		}
		return out
	case KUnit:
		return nil
	}
	return []string{"Int"}
}

// ---------------------------------------------------------------- integers

type intInfo struct {
	signed bool
	bits   int
	float  bool
}

func intInfoOf(t types.Type) (intInfo, bool) {
	b, ok := t.Underlying().(*types.Basic)
	if !ok {
		return intInfo{}, false
	}
	switch b.Kind() {
	case types.Int, types.Int64, types.UntypedInt, types.UntypedRune:
		return intInfo{true, 64, false}, true
	case types.Int8:
		return intInfo{true, 8, false}, true
	case types.Int16:
		return intInfo{true, 16, false}, true
	case types.Int32:
		return intInfo{true, 32, false}, true
	case types.Uint, types.Uint64, types.Uintptr:
		return intInfo{false, 64, false}, true
	case types.Uint8:
		return intInfo{false, 8, false}, true
	case types.Uint16:
		return intInfo{false, 16, false}, true
	case types.Uint32:
		return intInfo{false, 32, false}, true
	case types.Float32, types.Float64, types.UntypedFloat:
		return intInfo{float: true}, true
	}
	return intInfo{}, false
}

func pow2(n int) string {
	return new(big.Int).Lsh(big.NewInt(1), uint(n)).String()
}

func (ii intInfo) min() string {
	if !ii.signed {
		return "0"
	}
	return "(- " + pow2(ii.bits-1) + ")"
}

func (ii intInfo) max() string {
	if ii.signed {
		return new(big.Int).Sub(new(big.Int).Lsh(big.NewInt(1), uint(ii.bits-1)), big.NewInt(1)).String()
	}
	return new(big.Int).Sub(new(big.Int).Lsh(big.NewInt(1), uint(ii.bits)), big.NewInt(1)).String()
}

func rangeFact(t string, ty types.Type) string {
	ii, ok := intInfoOf(ty)
	if !ok || ii.float {
		return "true"
	}
	return fmt.Sprintf("(and (<= %s %s) (<= %s %s))", ii.min(), t, t, ii.max())
}

// wrap brings a mathematical integer term into the range of type ty
// (two's complement wrap-around).
func wrapTo(t string, ty types.Type) string {
	ii, ok := intInfoOf(ty)
	if !ok || ii.float {
		return t
	}
	if !ii.signed {
		return fmt.Sprintf("(mod %s %s)", t, pow2(ii.bits))
	}
	return fmt.Sprintf("(- (mod (+ %s %s) %s) %s)", t, pow2(ii.bits-1), pow2(ii.bits), pow2(ii.bits-1))
}

// wrapAddSub: a single wrap step is enough for the sum/difference of two
// in-range values.
func wrapAddSub(t string, ty types.Type) string {
	ii, ok := intInfoOf(ty)
	if !ok || ii.float {
		return t
	}
	m := pow2(ii.bits)
	return fmt.Sprintf("(let ((s!w %s)) (ite (> s!w %s) (- s!w %s) (ite (< s!w %s) (+ s!w %s) s!w)))", t, ii.max(), m, ii.min(), m)
}

// typeFacts returns the well-formedness facts of a freshly introduced value.
func typeFacts(v Val, alloc string) []string {
	var out []string
	switch v.K {
	case KInt:
		if v.Ty != nil {
			if f := rangeFact(v.T, v.Ty); f != "true" {
				out = append(out, f)
			}
		}
	case KRef, KFunc:
		out = append(out, fmt.Sprintf("(<= 0 %s)", v.T))
		if alloc != "" {
			out = append(out, fmt.Sprintf("(<= %s %s)", v.T, alloc))
		}
	case KStr:
		out = append(out, fmt.Sprintf("(<= 0 %s)", v.T))
	case KSlice:
		arr, off, ln, cp := v.Fs[0].T, v.Fs[1].T, v.Fs[2].T, v.Fs[3].T
		out = append(out, fmt.Sprintf("(and (<= 0 %s) (<= 0 %s) (<= 0 %s) (<= %s %s) (<= %s %s) (=> (= %s 0) (and (= %s 0) (= %s 0))))", arr, off, ln, ln, cp, cp, pow2(62), arr, cp, off))
		if alloc != "" {
			out = append(out, fmt.Sprintf("(<= %s %s)", arr, alloc))
		}
	case KIface:
		tag, pay := v.Fs[0].T, v.Fs[1].T
		out = append(out, fmt.Sprintf("(and (<= 0 %s) (=> (= %s 0) (= %s 0)))", tag, tag, pay))
	case KStruct, KArray, KTuple:
		for _, f := range v.Fs {
			out = append(out, typeFacts(f, alloc)...)
		}
	}
	return out
}

func typeKey(t types.Type) string {
	t = types.Unalias(t)
	if b, ok := t.(*types.Basic); ok && b.Kind() < types.UntypedBool && b.Kind() != types.Invalid {
		t = types.Typ[b.Kind()] // byte -> uint8, rune -> int32
	}
	s := types.TypeString(t, func(p *types.Package) string { return p.Path() })
	s = strings.ReplaceAll(s, "github.com/ipld/go-storethehash", "~")
	return s
}

// zeroVal returns the zero value of a type.
func zeroVal(t types.Type) Val {
	return buildVal(t, func(l leaf) string {
		if l.sort == "Bool" {
			return "false"
		}
		return "0"
	})
}
