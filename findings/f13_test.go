package store_test

// F13 (property C03; open): mhprimary.Open appends after whatever the last primary file ends
// with. If the process died while a record was being flushed, the file ends with a torn record
// (a size prefix and part of the data). Nothing validates or removes it at the next open, new
// records are appended after it, and the primary file no longer parses as a chain of records.
// Lookups still work (the index names exact locations), but primary GC scans files record by
// record: it takes the torn record's size, jumps into the middle of later records and from then
// on reads garbage as size prefixes - it merges, relocates or frees bytes that are live data.
//   cd /repo && echo '{"Replace":{"/repo/store/f13_test.go":"/verif/findings/f13_test.go"}}' > /tmp/ov.json && go test -overlay /tmp/ov.json -vet=off -count=1 -run TestF13 ./store/

import (
	"bytes"
	"context"
	"encoding/binary"
	"fmt"
	"os"
	"path/filepath"
	"testing"
	"time"

	"github.com/ipld/go-storethehash/store"
	mhprimary "github.com/ipld/go-storethehash/store/primary/multihash"
	"github.com/multiformats/go-multihash"
)

func TestF13TornPrimaryTailThenGC(t *testing.T) {
	dir := t.TempDir()
	dataPath, indexPath := filepath.Join(dir, "data"), filepath.Join(dir, "index")
	open := func() *store.Store {
		s, err := store.OpenStore(context.Background(), store.MultihashPrimary, dataPath, indexPath, false,
			store.GCInterval(time.Hour), store.PrimaryFileSize(400))
		if err != nil {
			t.Fatal(err)
		}
		return s
	}
	key := func(i int) []byte {
		k, _ := multihash.Sum([]byte(fmt.Sprintf("key-%d", i)), multihash.SHA2_256, -1)
		return k
	}
	val := func(i int) []byte { return []byte(fmt.Sprintf("value-%d-%d", i, i)) }
	s := open()
	for i := 0; i < 2; i++ {
		if err := s.Put(key(i), val(i)); err != nil {
			t.Fatal(err)
		}
	}
	if err := s.Close(); err != nil {
		t.Fatal(err)
	}
	// crash while the next record was being flushed: its size prefix (60) and 7 bytes arrived
	f, err := os.OpenFile(dataPath+".0", os.O_WRONLY|os.O_APPEND, 0o644)
	if err != nil {
		t.Fatal(err)
	}
	torn := make([]byte, 4+7)
	binary.LittleEndian.PutUint32(torn, 60)
	f.Write(torn)
	f.Close()

	s = open()
	defer s.Close()
	n := 12
	for i := 2; i < n; i++ {
		if err := s.Put(key(i), val(i)); err != nil {
			t.Fatal(err)
		}
	}
	if err := s.Flush(); err != nil {
		t.Fatal(err)
	}
	// remove a few keys so that the first file has free space, then let GC work on it
	for i := 2; i < 5; i++ {
		if _, err := s.Remove(key(i)); err != nil {
			t.Fatal(err)
		}
	}
	if err := s.Flush(); err != nil {
		t.Fatal(err)
	}
	mp := s.Primary().(*mhprimary.MultihashPrimary)
	for c := 0; c < 4; c++ {
		if _, err := mp.GC(context.Background(), 0); err != nil {
			t.Logf("gc cycle %d: %v", c, err)
		}
		if err := s.Flush(); err != nil {
			t.Fatal(err)
		}
		for i := 0; i < n; i++ {
			if i >= 2 && i < 5 {
				continue
			}
			v, found, err := s.Get(key(i))
			if err != nil || !found || !bytes.Equal(v, val(i)) {
				t.Fatalf("after GC cycle %d key %d: found=%v value=%q err=%v", c, i, found, v, err)
			}
		}
	}
}
