package mhprimary_test

// F20 (C02/C17): MultihashPrimary.Close never set mp.closed, so a second Close with the
// collector started closed an already closed channel and panicked.
//   cd /repo && echo '{"Replace":{"/repo/store/primary/multihash/f20_test.go":"/verif/findings/f20_test.go"}}' > /tmp/ov.json && go test -overlay /tmp/ov.json -vet=off -count=1 -run TestF20 ./store/primary/multihash/

import (
	"path/filepath"
	"testing"
	"time"

	"github.com/ipld/go-storethehash/store/filecache"
	"github.com/ipld/go-storethehash/store/freelist"
	mhprimary "github.com/ipld/go-storethehash/store/primary/multihash"
	"github.com/ipld/go-storethehash/store/types"
)

func TestF20DoubleClose(t *testing.T) {
	dir := t.TempDir()
	fl, err := freelist.Open(filepath.Join(dir, "free"))
	if err != nil {
		t.Fatal(err)
	}
	defer fl.Close()
	mp, err := mhprimary.Open(filepath.Join(dir, "data"), fl, filecache.New(4), 0)
	if err != nil {
		t.Fatal(err)
	}
	mp.StartGC(fl, time.Hour, 0, func([]byte, types.Block) error { return nil })
	if err = mp.Close(); err != nil {
		t.Fatal(err)
	}
	if err = mp.Close(); err != nil {
		t.Fatal(err)
	}
}
