package main

// Calls: builtins, contracts, inlining, sync primitives.

import (
	"fmt"
	"go/token"
	"go/types"
	"strings"

	"golang.org/x/tools/go/ssa"
)

const maxInlineInstrs = 80
const maxInlineDepth = 4

func (c *FnCtx) execCall(bc *blockCtx, cc *ssa.CallCommon, site ssa.Value, pos token.Pos) Val {
	fnVal := c.operand(bc, cc.Value)
	var args []Val
	for _, a := range cc.Args {
		args = append(args, c.operand(bc, a))
	}
	return c.execCallWith(bc, cc, fnVal, args, pos)
}

func resultType(cc *ssa.CallCommon) types.Type {
	sig := cc.Signature()
	switch sig.Results().Len() {
	case 0:
		return nil
	case 1:
		return sig.Results().At(0).Type()
	}
	return sig.Results()
}

func (c *FnCtx) havocResult(bc *blockCtx, cc *ssa.CallCommon, prefix string) Val {
	rt := resultType(cc)
	if rt == nil {
		return Val{K: KUnit}
	}
	return c.freshVal(bc.st, rt, prefix)
}

func (c *FnCtx) execCallWith(bc *blockCtx, cc *ssa.CallCommon, fnVal Val, args []Val, pos token.Pos) Val {
	// builtins
	if b, ok := cc.Value.(*ssa.Builtin); ok {
		return c.execBuiltin(bc, b, cc, args, pos)
	}
	name := calleeName(cc)
	var callee *ssa.Function
	if cc.IsInvoke() {
		// receiver first
		args = append([]Val{fnVal}, args...)
	} else if f := cc.StaticCallee(); f != nil {
		callee = f
	} else if fnVal.K == KFunc && fnVal.Fn != nil {
		callee = fnVal.Fn
		name = callee.String()
	}
	// special-cased library calls
	if v, ok := c.specialCall(bc, name, cc, fnVal, args, pos); ok {
		return v
	}
	if callee != nil && callee.Pkg != nil {
		pp := callee.Pkg.Pkg.Path()
		if strings.HasPrefix(pp, "github.com/ipfs/go-log") || strings.HasPrefix(pp, "go.uber.org/zap") {
			c.note("logging calls have no effect on modelled state (assumed)")
			return c.havocResult(bc, cc, "log")
		}
	}
	// contract lookup
	var spec *FuncSpec
	switch {
	case callee != nil:
		spec = c.eng.findSpec(callee)
	case cc.IsInvoke():
		spec = c.invokeSpec(cc)
	default:
		spec = c.funcValueSpec(cc, fnVal)
	}
	if spec != nil && !spec.Inline && !(spec.annotationOnly() && callee != nil && len(callee.Blocks) > 0 && c.canInline(callee, bc.fr)) {
		return c.applyContract(bc, spec, cc, callee, name, args, pos)
	}
	if callee != nil && len(callee.Blocks) > 0 && callee.Pkg != nil && strings.HasPrefix(callee.Pkg.Pkg.Path(), c.eng.modPath) {
		if c.canInline(callee, bc.fr) {
			return c.inlineCall(bc, callee, fnVal, args, pos)
		}
		c.unsupported(fmt.Sprintf("call of %s at %s: callee has no contract and cannot be inlined", shortFuncName(callee, c.eng.modPath), c.eng.posOf(pos)))
		return c.havocAll(bc, cc, name)
	}
	c.unsupported(fmt.Sprintf("call of %s at %s: no contract", name, c.eng.posOf(pos)))
	return c.havocAll(bc, cc, name)
}

// havocAll is the fallback for an unknown callee: results are arbitrary and
// the whole modelled heap is havoced (sound, and useless on purpose: the
// function is reported as outside the subset).
func (c *FnCtx) havocAll(bc *blockCtx, cc *ssa.CallCommon, name string) Val {
	for n, s := range c.heapSorts {
		if c.sweep && strings.HasPrefix(n, "LK:") {
			continue // sweep mode: unknown callees are assumed not to touch this thread's locks
		}
		c.heapHavoc(bc.st, n, s)
	}
	bc.st.wild = append(bc.st.wild, "")
	na := c.sc.fresh("alloc", "Int")
	c.sc.assert("(>= " + na + " " + bc.st.alloc + ")")
	bc.st.alloc = na
	return c.havocResult(bc, cc, "unknown."+name)
}

func (c *FnCtx) canInline(f *ssa.Function, fr *Frame) bool {
	if fr.depth >= maxInlineDepth {
		return false
	}
	for p := fr; p != nil; p = p.parent {
		if p.fn == f {
			return false
		}
	}
	n := 0
	for _, b := range f.Blocks {
		n += len(b.Instrs)
	}
	if n > maxInlineInstrs {
		return false
	}
	if len(findLoops(f)) > 0 {
		return false
	}
	return true
}

func (c *FnCtx) inlineCall(bc *blockCtx, callee *ssa.Function, fnVal Val, args []Val, pos token.Pos) Val {
	c.inlined[shortFuncName(callee, c.eng.modPath)] = true
	fr := c.newFrame(callee, bc.fr)
	for i, fv := range callee.FreeVars {
		if i < len(fnVal.Binds) {
			fr.freeVar[fv] = fnVal.Binds[i]
		}
	}
	exits := c.runFunction(fr, bc.st.clone(), bc.reach, args)
	if len(exits) == 0 {
		bc.dead = true
		bc.reach = "false"
		return poison("inlined callee never returns")
	}
	var ins []edgeIn
	for _, e := range exits {
		ins = append(ins, edgeIn{e.st, e.cond})
	}
	if len(exits) == 1 {
		bc.st = exits[0].st
		bc.reach = exits[0].cond
		return tupleOf(callee, exits[0].results)
	}
	// merge result values through pseudo-cells
	nres := len(exits[0].results)
	for i := range ins {
		for j := 0; j < nres; j++ {
			ins[i].st.ghost[fmt.Sprintf("$ret.%d.%d", fr.id, j)] = exits[i].results[j]
		}
	}
	m, r := c.merge(ins)
	bc.st = m.clone()
	bc.reach = r
	var rs []Val
	for j := 0; j < nres; j++ {
		k := fmt.Sprintf("$ret.%d.%d", fr.id, j)
		rs = append(rs, bc.st.ghost[k])
		delete(bc.st.ghost, k)
	}
	return tupleOf(callee, rs)
}

func tupleOf(f *ssa.Function, rs []Val) Val {
	switch len(rs) {
	case 0:
		return Val{K: KUnit}
	case 1:
		return rs[0]
	}
	return Val{K: KTuple, Fs: rs, Ty: f.Signature.Results()}
}

func (c *FnCtx) invokeSpec(cc *ssa.CallCommon) *FuncSpec {
	t := cc.Value.Type()
	if n, ok := t.(*types.Named); ok && n.Obj().Pkg() != nil {
		k := n.Obj().Pkg().Path() + "::" + n.Obj().Name() + "." + cc.Method.Name()
		if s, ok := c.eng.specs.Funcs[k]; ok {
			return s
		}
	}
	if s, ok := c.eng.specs.Funcs["ext::"+calleeName(cc)]; ok {
		return s
	}
	return nil
}

func (c *FnCtx) funcValueSpec(cc *ssa.CallCommon, fnVal Val) *FuncSpec {
	t := cc.Value.Type()
	if n, ok := t.(*types.Named); ok && n.Obj().Pkg() != nil {
		k := n.Obj().Pkg().Path() + "::" + n.Obj().Name()
		if s, ok := c.eng.specs.Funcs[k]; ok {
			return s
		}
		if s, ok := c.eng.specs.Funcs["ext::"+n.Obj().Pkg().Path()+"."+n.Obj().Name()]; ok {
			return s
		}
	}
	if fnVal.K == KFunc && fnVal.Sort != "" {
		// origin field, e.g. ~/store/filecache.FileCache.onEvicted
		for k, s := range c.eng.specs.Funcs {
			i := strings.Index(k, "::")
			if i < 0 {
				continue
			}
			full := strings.Replace(k[:i], c.eng.modPath, "~", 1) + "." + k[i+2:]
			if full == fnVal.Sort {
				return s
			}
		}
	}
	return nil
}

// ---------------------------------------------------------------- builtins

func (c *FnCtx) execBuiltin(bc *blockCtx, b *ssa.Builtin, cc *ssa.CallCommon, args []Val, pos token.Pos) Val {
	it := types.Typ[types.Int]
	switch b.Name() {
	case "len":
		switch args[0].K {
		case KSlice:
			return mkInt(args[0].Fs[2].T, it)
		case KStr:
			return mkInt("(gstr.len "+args[0].T+")", it)
		case KRef:
			if mt, ok := cc.Args[0].Type().Underlying().(*types.Map); ok {
				card := c.mapCard(bc.st, mt, args[0].T)
				// a map of cardinality 0 has no key
				c.sc.assert(sImp("(= "+card+" 0)", "(forall ((k!c Int)) (not "+c.mapPresent(bc.st, mt, args[0].T, "k!c")+"))"))
				return mkInt(sIte("(= "+args[0].T+" 0)", "0", card), it)
			}
			if _, ok := cc.Args[0].Type().Underlying().(*types.Chan); ok {
				return c.freshVal(bc.st, it, "chanlen")
			}
		case KArray:
			return mkInt(fmt.Sprint(len(args[0].Fs)), it)
		}
	case "cap":
		if args[0].K == KSlice {
			return mkInt(args[0].Fs[3].T, it)
		}
	case "append":
		return c.execAppend(bc, cc, args, pos)
	case "copy":
		return c.execCopy(bc, cc, args, pos)
	case "delete":
		mt := cc.Args[0].Type().Underlying().(*types.Map)
		c.mapDelete(bc.st, mt, args[0].T, args[1])
		return Val{K: KUnit}
	case "close":
		ch := args[0]
		a := c.heapGet(bc.st, "CH:closed", arrSort("Bool"))
		c.safety("close", bc.reach, sAnd("(not (= "+ch.T+" 0))", "(not (select "+a+" "+ch.T+"))"), pos)
		c.heapStore(bc.st, "CH:closed", arrSort("Bool"), ch.T, "true")
		return Val{K: KUnit}
	case "min", "max":
		op := "<"
		if b.Name() == "max" {
			op = ">"
		}
		r := args[0]
		for _, a := range args[1:] {
			r = mkInt(sIte("("+op+" "+a.T+" "+r.T+")", a.T, r.T), r.Ty)
		}
		return r
	case "ssa:deferstack":
		return Val{K: KUnit}
	case "ssa:wrapnilchk":
		return args[0]
	case "print", "println":
		return Val{K: KUnit}
	case "panic":
		c.safety("panic", bc.reach, "false", pos)
		bc.dead = true
		return Val{K: KUnit}
	}
	c.unsupported("builtin " + b.Name())
	return c.havocResult(bc, cc, "builtin")
}

func (c *FnCtx) execAppend(bc *blockCtx, cc *ssa.CallCommon, args []Val, pos token.Pos) Val {
	st := bc.st
	dst, src := args[0], args[1]
	it := types.Typ[types.Int]
	st0 := cc.Args[0].Type().Underlying().(*types.Slice)
	el := st0.Elem()
	if dst.K != KSlice {
		return poison("append to unmodelled slice")
	}
	var sArr, sOff, sLen string
	srcElemHeap := true
	switch src.K {
	case KSlice:
		sArr, sOff, sLen = src.Fs[0].T, src.Fs[1].T, src.Fs[2].T
	case KStr:
		// append([]byte, string...)
		srcElemHeap = false
		sLen = "(gstr.len " + src.T + ")"
	default:
		return poison("append of unmodelled source")
	}
	arr, off, ln, cp := dst.Fs[0].T, dst.Fs[1].T, dst.Fs[2].T, dst.Fs[3].T
	newLen := c.sc.fresh("append.len", "Int")
	c.sc.assert(sEq(newLen, "(+ "+ln+" "+sLen+")"))
	inplace := c.sc.fresh("append.inplace", "Bool")
	c.sc.assert(sEq(inplace, "(<= "+newLen+" "+cp+")"))
	fresh := c.allocRef(st)
	newCap := c.sc.fresh("append.cap", "Int")
	c.sc.assert(sIte(inplace, sEq(newCap, cp), "(and (>= "+newCap+" "+newLen+") (<= "+newCap+" "+pow2(62)+"))"))
	rArr := sIte(inplace, arr, fresh)
	rOff := sIte(inplace, off, "0")
	rArrN := c.sc.fresh("append.arr", "Int")
	c.sc.assert(sEq(rArrN, rArr))
	rOffN := c.sc.fresh("append.off", "Int")
	c.sc.assert(sEq(rOffN, rOff))
	for _, lf := range leavesOf(el) {
		name := elemArrayName(el, lf.path)
		a := c.heapGet(st, name, arr2Sort(lf.sort))
		newC := c.sc.fresh("append.data", arrSort(lf.sort))
		var srcSel string
		if srcElemHeap {
			srcSel = "(select (select " + a + " " + sArr + ") (+ " + sOff + " (- k!a (+ " + rOffN + " " + ln + "))))"
		} else {
			srcSel = "(gstr.at " + src.T + " (- k!a (+ " + rOffN + " " + ln + ")))"
		}
		oldSel := sIte(inplace, "(select (select "+a+" "+arr+") k!a)", "(select (select "+a+" "+arr+") (+ "+off+" k!a))")
		// in the fresh case positions beyond the copied prefix are zero (unspecified but irrelevant)
		c.sc.assert("(forall ((k!a Int)) (! (= (select " + newC + " k!a) (ite (and (<= (+ " + rOffN + " " + ln + ") k!a) (< k!a (+ " + rOffN + " " + newLen + "))) " + srcSel + " " + oldSel + ")) :pattern ((select " + newC + " k!a))))")
		c.heapStore(st, name, arr2Sort(lf.sort), rArrN, newC)
	}
	return Val{K: KSlice, Ty: cc.Args[0].Type(), Fs: []Val{mkInt(rArrN, it), mkInt(rOffN, it), mkInt(newLen, it), mkInt(newCap, it)}}
}

func (c *FnCtx) execCopy(bc *blockCtx, cc *ssa.CallCommon, args []Val, pos token.Pos) Val {
	st := bc.st
	dst, src := args[0], args[1]
	it := types.Typ[types.Int]
	if dst.K != KSlice || src.K != KSlice {
		c.unsupported("copy with unmodelled operands")
		return c.freshVal(st, it, "copy.n")
	}
	el := cc.Args[0].Type().Underlying().(*types.Slice).Elem()
	n := c.sc.fresh("copy.n", "Int")
	c.sc.assert(sEq(n, sIte("(< "+dst.Fs[2].T+" "+src.Fs[2].T+")", dst.Fs[2].T, src.Fs[2].T)))
	for _, lf := range leavesOf(el) {
		name := elemArrayName(el, lf.path)
		a := c.heapGet(st, name, arr2Sort(lf.sort))
		newC := c.sc.fresh("copy.data", arrSort(lf.sort))
		c.sc.assert("(forall ((k!a Int)) (! (= (select " + newC + " k!a) (ite (and (<= " + dst.Fs[1].T + " k!a) (< k!a (+ " + dst.Fs[1].T + " " + n + "))) (select (select " + a + " " + src.Fs[0].T + ") (+ " + src.Fs[1].T + " (- k!a " + dst.Fs[1].T + "))) (select (select " + a + " " + dst.Fs[0].T + ") k!a))) :pattern ((select " + newC + " k!a))))")
		c.heapStore(st, name, arr2Sort(lf.sort), dst.Fs[0].T, newC)
	}
	return mkInt(n, it)
}

// ---------------------------------------------------------------- special library calls

func lockArrayName(l *Loc) string {
	if l == nil {
		return ""
	}
	switch l.Kind {
	case LField:
		p, _ := pathString(l.Root, l.Path)
		return "LK:" + typeKey(l.Root) + p
	}
	return ""
}

func (c *FnCtx) specialCall(bc *blockCtx, name string, cc *ssa.CallCommon, fnVal Val, args []Val, pos token.Pos) (Val, bool) {
	unit := Val{K: KUnit}
	switch name {
	case "(*sync.Mutex).Lock", "(*sync.RWMutex).Lock", "(*sync.Mutex).Unlock", "(*sync.RWMutex).Unlock", "(*sync.RWMutex).RLock", "(*sync.RWMutex).RUnlock":
		l := c.ptrToLoc(args[0])
		an := lockArrayName(l)
		if an == "" {
			c.unsupported("lock operation on unmodelled mutex at " + c.eng.posOf(pos))
			return unit, true
		}
		a := c.heapGet(bc.st, an, arrSort("Int"))
		cur := "(select " + a + " " + l.Base + ")"
		op := name[strings.LastIndex(name, ".")+1:]
		var want, next string
		switch op {
		case "Lock":
			want, next = "0", "1"
		case "RLock":
			want, next = "0", "2"
		case "Unlock":
			want, next = "1", "0"
		case "RUnlock":
			want, next = "2", "0"
		}
		c.lockObl(bc, op, "(= "+cur+" "+want+")", pos)
		c.heapStore(bc.st, an, arrSort("Int"), l.Base, next)
		return unit, true
	case "sort.Slice", "sort.SliceStable":
		// the elements of the boxed slice are permuted; the comparator is assumed to have no effects
		if len(args) < 1 || args[0].K != KIface {
			return unit, false
		}
		sv, ok := c.boxes[args[0].Fs[1].T]
		if !ok || sv.K != KSlice {
			return unit, false
		}
		el := sv.Ty.Underlying().(*types.Slice).Elem()
		lv := leavesOf(el)
		if len(lv) != 1 {
			return unit, false
		}
		c.assumed[name+" (permutes the slice; comparator without side effects)"] = true
		an := elemArrayName(el, "")
		srt := arr2Sort(lv[0].sort)
		oldA := c.heapGet(bc.st, an, srt)
		oldIn := "(select " + oldA + " " + sv.Fs[0].T + ")"
		newIn := c.sc.fresh("sorted", arrSort(lv[0].sort))
		perm := c.sc.fresh("perm", "(Array Int Int)")
		off, ln := sv.Fs[1].T, sv.Fs[2].T
		c.sc.assert(fmt.Sprintf("(forall ((i!p Int)) (! (=> (and (<= 0 i!p) (< i!p %s)) (and (<= 0 (select %s i!p)) (< (select %s i!p) %s) (= (select %s (idx %s i!p)) (select %s (idx %s (select %s i!p)))))) :pattern ((select %s (idx %s i!p)))))", ln, perm, perm, ln, newIn, off, oldIn, off, perm, newIn, off))
		c.sc.assert(fmt.Sprintf("(forall ((k!p Int)) (! (=> (or (< k!p %s) (>= k!p (+ %s %s))) (= (select %s k!p) (select %s k!p))) :pattern ((select %s k!p))))", off, off, ln, newIn, oldIn, newIn))
		c.heapStore(bc.st, an, srt, sv.Fs[0].T, newIn)
		return unit, true
	case "(*sync.Once).Do":
		// the body is verified separately under its own contract (or inlined); here: run it at most once
		l := c.ptrToLoc(args[0])
		an := ""
		if l != nil && l.Kind == LField {
			p, _ := pathString(l.Root, l.Path)
			an = "ONCE:" + typeKey(l.Root) + p
		}
		if an == "" || len(args) < 2 {
			c.unsupported("sync.Once on unmodelled location")
			return unit, true
		}
		a := c.heapGet(bc.st, an, arrSort("Bool"))
		done := "(select " + a + " " + l.Base + ")"
		skip := bc.st.clone()
		run := &blockCtx{fr: bc.fr, st: bc.st.clone(), reach: sAnd(bc.reach, sNot(done))}
		f := args[1]
		if f.K == KFunc && f.Fn != nil {
			fcc := &ssa.CallCommon{Value: f.Fn}
			c.execCallWith(run, fcc, f, nil, pos)
		} else {
			c.unsupported("sync.Once.Do with dynamic function")
		}
		c.heapStore(run.st, an, arrSort("Bool"), l.Base, "true")
		m, r := c.merge([]edgeIn{{run.st, run.reach}, {skip, sAnd(bc.reach, done)}})
		bc.st = m.clone()
		bc.reach = r
		return unit, true
	}
	return Val{}, false
}

// lockObl is overridable bookkeeping for lock-discipline obligations.
func (c *FnCtx) lockObl(bc *blockCtx, what, goal string, pos token.Pos) {
	n := c.safetyCtr["lock:"+what]
	c.safetyCtr["lock:"+what] = n + 1
	c.oblige("lock", fmt.Sprintf("%s:%d", what, n), bc.reach, goal, c.eng.posOf(pos), "lock "+what, c.lockProps())
}

func (c *FnCtx) lockProps() []string {
	ps := []string{"C16"}
	return ps
}
