package filecache

// F7, F8 (property C14). Run with:
//   cd /repo && echo '{"Replace":{"/repo/store/filecache/f7_f8_test.go":"/verif/findings/f7_f8_test.go"}}' > /tmp/ov.json && go test -overlay /tmp/ov.json -vet=off -count=1 -run 'TestF7|TestF8' ./store/filecache/

import (
	"os"
	"path/filepath"
	"testing"
)

// F7: a handle opened while the cache was disabled (capacity 0) and closed after the same
// name was cached decremented the cached entry's reference count; the cached handle was
// then closed while still lent out.
func TestF7CloseByNameStealsReference(t *testing.T) {
	name := filepath.Join(t.TempDir(), "a")
	if err := os.WriteFile(name, []byte("hello"), 0o644); err != nil {
		t.Fatal(err)
	}
	c := New(0)
	f1, err := c.Open(name)
	if err != nil {
		t.Fatal(err)
	}
	c.SetCacheSize(2)
	f2, err := c.Open(name)
	if err != nil {
		t.Fatal(err)
	}
	if err = c.Close(f1); err != nil {
		t.Fatal(err)
	}
	c.Remove(name)
	buf := make([]byte, 5)
	if _, err = f2.ReadAt(buf, 0); err != nil {
		t.Fatalf("handle still lent out was closed: %v", err)
	}
	if err = c.Close(f2); err != nil {
		t.Fatal(err)
	}
}

// F8: reducing a non-zero capacity on a cache that never held a file dereferenced a nil list.
func TestF8ShrinkEmptyCache(t *testing.T) {
	c := New(10)
	c.SetCacheSize(5)
	if c.Cap() != 5 {
		t.Fatal("capacity not set")
	}
}
