#!/usr/bin/env python3
"""slowcore.py <query.smt2> <needed-substr>... : finds assertions whose presence makes a query slow.
Keeps assertions containing any of the needed substrings plus the final two asserts; then adds back
halves of the rest while the query stays fast."""
import subprocess, sys
src = open(sys.argv[1]).read().replace('(get-model)', '')
need = sys.argv[2:]
lines = src.split('\n')
start = next(i for i, l in enumerate(lines) if l.startswith('(declare-const alloc!0'))
fixed, rest = lines[:start], lines[start:]
asserts = [i for i, l in enumerate(rest) if l.startswith('(assert ')]
base = set(i for i in asserts if any(n in rest[i] for n in need)) | set(asserts[-2:])
def fast(keep):
    body = [l for i, l in enumerate(rest) if not l.startswith('(assert ') or i in keep]
    open('/tmp/sc.smt2', 'w').write('\n'.join(fixed + body))
    out = subprocess.run(['z3-new', '-T:4', '/tmp/sc.smt2'], capture_output=True, text=True).stdout
    return out.startswith('unsat')
print("base fast:", fast(base))
others = [i for i in asserts if i not in base]
keep = set(base)
def rec(cands):
    global keep
    if not cands: return
    if fast(keep | set(cands)):
        keep |= set(cands); return
    if len(cands) == 1:
        print("SLOW:", rest[cands[0]][:700]); return
    m = len(cands)//2
    rec(cands[:m]); rec(cands[m:])
rec(others)
