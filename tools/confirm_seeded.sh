#!/bin/sh
# usage: tools/confirm_seeded.sh <id> [base-commit]
# Confirms one seeded change in a scratch worktree of /repo at the baseline commit the change was
# written against (default 907e30e, the pinned snapshot): (1) the patch applies and the existing
# test suite still passes with it, (2) the demonstration test fails with the patch, (3) the same
# demonstration passes without it. Writes seeded/<id>/meta.json. The worktree is removed afterwards.
cd "$(dirname "$0")/.."
id="$1"; basec="${2:-907e30e}"
d="seeded/$id"; [ -f "$d/patch.diff" ] || { echo "no such seeded change"; exit 2; }
w="${TMPDIR:-/tmp}/gsv-seed-$$"; mkdir -p "$w"
git -C /repo worktree add --detach "$w/repo" "$basec" >/dev/null 2>&1 || { echo "cannot create worktree"; exit 2; }
export GOFLAGS=-mod=mod GOPROXY=off
pkgdir=$(python3 - "$d/demo_test.go" <<'PY'
import re,sys
head="".join(open(sys.argv[1]).readlines()[:6])
if "module root" in head: print("."); sys.exit()
m=re.search(r'(?:[Pp]lace[^\n]*?)(store(?:/[a-z]+)*)',head)
print(m.group(1) if m else ".")
PY
)
race=""; head -6 "$d/demo_test.go" | grep -q -- "-race" && race="-race"
tname=$(sed -n 's/^func \(Test[A-Za-z0-9_]*\)(.*/\1/p' "$d/demo_test.go" | tr '\n' '|' | sed 's/|$//')
applies=false; suite=unknown; demo_patched=unknown; demo_clean=unknown
# (3) clean tree + demo
cp "$d/demo_test.go" "$w/repo/$pkgdir/zz_seeded_demo_test.go"
if (cd "$w/repo" && go test $race -vet=off -count=1 -timeout 300s -run "$tname" "./$pkgdir/" >"$w/clean.log" 2>&1); then demo_clean=pass; else demo_clean=fail; fi
rm -f "$w/repo/$pkgdir/zz_seeded_demo_test.go"
# (1) patch + suite
if git -C "$w/repo" apply "$(realpath $d/patch.diff)" 2>"$w/apply.log"; then
  applies=true
  if (cd "$w/repo" && go test -vet=off -count=1 -timeout 20m ./... >"$w/suite.log" 2>&1); then suite=pass; else suite=fail; fi
  # (2) patch + demo
  cp "$d/demo_test.go" "$w/repo/$pkgdir/zz_seeded_demo_test.go"
  if (cd "$w/repo" && go test $race -vet=off -count=1 -timeout 300s -run "$tname" "./$pkgdir/" >"$w/patched.log" 2>&1); then demo_patched=pass; else demo_patched=fail; fi
fi
prop=${id%%-*}
needs=$(awk '/^## (What is needed|What it needs|Needs|What is needed for it to manifest)/{f=1;next} /^## /{f=0} f' "$d/notes.md" | tr '\n' ' ' | cut -c1-600)
python3 - "$id" "$prop" "$basec" "$pkgdir" "$tname" "$applies" "$suite" "$demo_patched" "$demo_clean" "$needs" "$w/patched.log" <<'PY'
import json,sys,os
id,prop,basec,pkgdir,tname,applies,suite,dp,dc,needs,plog=sys.argv[1:12]
tail=""
if os.path.exists(plog):
    tail="\n".join(open(plog,errors="replace").read().splitlines()[-12:])[:1500]
meta={"id":id,"breaks_property":prop,"written_against_commit":basec,
 "needs_to_manifest":needs.strip() or "see notes.md",
 "confirmed":{"patch_applies":applies=="true","existing_suite_with_patch":suite,"demo_with_patch":dp,"demo_without_patch":dc,
   "confirmed": applies=="true" and suite=="pass" and dp=="fail" and dc=="pass"},
 "ran":["git worktree add --detach <scratch> "+basec,
        "go test -vet=off -count=1 -run '%s' ./%s/   (demo on the clean tree: %s)"%(tname,pkgdir,dc),
        "git apply seeded/%s/patch.diff && go test -vet=off -count=1 ./...   (existing suite: %s)"%(id,suite),
        "go test -vet=off -count=1 -run '%s' ./%s/   (demo with the patch: %s)"%(tname,pkgdir,dp)],
 "demo_output_with_patch_tail":tail}
json.dump(meta,open("/verif/seeded/%s/meta.json"%id,"w"),indent=1)
print(id,"applies" if applies=="true" else "NOAPPLY","suite="+suite,"demo_patched="+dp,"demo_clean="+dc)
PY
git -C /repo worktree remove --force "$w/repo" >/dev/null 2>&1
rm -rf "$w"
