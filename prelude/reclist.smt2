; requires: bytes
; requires: le
; Abstract view of a record list (the bytes of one bucket's list, without the 4-byte bucket tag):
;   rn(B)      number of entries          rst(B,i)  byte offset of entry i (rst(B,rn(B)) = blen(B))
;   rkey(B,i)  stored key prefix          roff/rsz  the primary location (block) of entry i
; The byte-level layout is: 8 bytes offset, 4 bytes size, 1 byte key length, key bytes.
(declare-fun rn (Bytes) Int)
(declare-fun rst (Bytes Int) Int)
; rkey/rblk are abstract here; their byte-level meaning (reclistbytes.smt2) is only given to the
; proofs of the byte-level functions.
(declare-fun rkey (Bytes Int) Bytes)
(declare-fun rblk (Bytes Int) Int)
; well-formed: the entries tile the byte string exactly
(declare-fun rwf (Bytes) Bool)
(assert (forall ((b Bytes)) (! (=> (rwf b) (and (>= (rn b) 0) (= (rst b 0) 0) (= (rst b (rn b)) (blen b)))) :pattern ((rwf b)))))
(assert (forall ((b Bytes) (i Int)) (! (=> (and (rwf b) (<= 0 i) (< i (rn b))) (and (= (rst b (+ i 1)) (+ (rst b i) 13 (blen (rkey b i)))) (<= 0 (rst b i)) (<= (rst b (+ i 1)) (blen b)))) :pattern ((rst b i) (rwf b)))))
; entry starts are strictly increasing (consequence of the defining equation by induction on j;
; the two induction obligations are lemma.RecList.st_mono_base / st_mono_step)
(assert (forall ((b Bytes) (i Int) (j Int)) (! (=> (and (rwf b) (<= 0 i) (< i j) (<= j (rn b))) (< (rst b i) (rst b j))) :pattern ((rst b i) (rst b j) (rwf b)))))
; inverse of rst on entry boundaries
(declare-fun ridx (Bytes Int) Int)
(assert (forall ((b Bytes) (i Int)) (! (=> (and (rwf b) (<= 0 i) (<= i (rn b))) (= (ridx b (rst b i)) i)) :pattern ((rst b i) (rwf b)))))
; rfind(B,k): index of the first entry whose stored key is greater than k (rn(B) if none):
; definition by description (the least such index exists and is unique)
(declare-fun rfind (Bytes Bytes) Int)
(assert (forall ((b Bytes) (k Bytes)) (! (and (<= 0 (rfind b k)) (<= (rfind b k) (rn b)) (=> (< (rfind b k) (rn b)) (blt k (rkey b (rfind b k))))) :pattern ((rfind b k)))))
(assert (forall ((b Bytes) (k Bytes) (i Int)) (! (=> (and (<= 0 i) (< i (rfind b k))) (not (blt k (rkey b i)))) :pattern ((rfind b k) (rkey b i)))))
; rlast(B,k): index of the last entry whose stored key is a prefix of k, or -1 (what Get/GetRecord return)
(declare-fun rlast (Bytes Bytes) Int)
(assert (forall ((b Bytes) (k Bytes)) (! (and (<= (- 1) (rlast b k)) (< (rlast b k) (rn b)) (=> (>= (rlast b k) 0) (isprefix (rkey b (rlast b k)) k))) :pattern ((rlast b k)))))
(assert (forall ((b Bytes) (k Bytes) (i Int)) (! (=> (and (< (rlast b k) i) (< i (rn b))) (not (isprefix (rkey b i) k))) :pattern ((rlast b k) (rkey b i)))))
