package main

// gsv — Go SSA verification-condition generator for go-storethehash.
//
//   gsv check  -prop C07 -tier quick            decide one property
//   gsv dump   -func index.localizeBucketPos    print SSA + obligations of one function
//   gsv sweep                                    zero-annotation safety sweep
//   gsv list                                     list functions under contract

import (
	"encoding/json"
	"flag"
	"fmt"
	"os"
	"path/filepath"
	"regexp"
	"sort"
	"strconv"
	"strings"
	"sync"
	"time"

	"golang.org/x/tools/go/ssa"
)

type options struct {
	repo    string
	verif   string
	prop    string
	tier    string
	seed    int
	timeout int
	jobs    int
	fn      string
	keep    bool
	verbose bool
	only    string
	out     string
	patient bool
}

func main() {
	if len(os.Args) < 2 {
		fmt.Fprintln(os.Stderr, "usage: gsv check|dump|sweep|list [flags]")
		os.Exit(2)
	}
	cmd := os.Args[1]
	fs := flag.NewFlagSet(cmd, flag.ExitOnError)
	var o options
	fs.StringVar(&o.repo, "repo", "/repo", "repository root")
	fs.StringVar(&o.verif, "verif", "/verif", "verification root")
	fs.StringVar(&o.prop, "prop", "", "property id")
	fs.StringVar(&o.tier, "tier", "quick", "quick|thorough")
	fs.IntVar(&o.seed, "seed", 0, "seed")
	fs.IntVar(&o.timeout, "timeout", 0, "solver timeout (s)")
	fs.IntVar(&o.jobs, "jobs", 16, "parallel solver jobs")
	fs.StringVar(&o.fn, "func", "", "function (short name)")
	fs.BoolVar(&o.keep, "keep", false, "keep SMT files")
	fs.BoolVar(&o.verbose, "v", false, "verbose")
	fs.StringVar(&o.only, "only", "", "only obligations containing this substring")
	fs.StringVar(&o.out, "out", "", "directory for evidence/replays/work (default: the verification root)")
	fs.Parse(os.Args[2:])
	if s := os.Getenv("VERIF_SEED"); s != "" && o.seed == 0 {
		if n, err := strconv.Atoi(s); err == nil {
			o.seed = n
		}
	}
	if t := os.Getenv("VERIF_TIER"); t == "quick" || t == "thorough" {
		o.tier = t
	}
	if o.out == "" {
		o.out = o.verif
	}
	if o.timeout == 0 {
		if o.tier == "thorough" {
			o.timeout = 120
		} else {
			o.timeout = 10
		}
	}
	start := time.Now()
	os.Setenv("PATH", "/opt/veriftools/go1.26.8/bin:"+os.Getenv("PATH"))
	eng, err := loadEngine(o.repo, filepath.Join(o.verif, "contracts", "ext"), filepath.Join(o.verif, "prelude"))
	if err != nil {
		fmt.Fprintln(os.Stderr, "gsv: cannot load:", err)
		if cmd == "check" && o.prop != "" {
			// a repository that does not load is a violation of nothing; report as engine failure
			os.Exit(2)
		}
		os.Exit(2)
	}
	eng.verbose = o.verbose
	eng.blockCanaries = o.tier == "thorough"
	eng.openKF = map[string]bool{}
	for _, kf := range loadKnownFindings(filepath.Join(o.verif, "KNOWN_FINDINGS.txt")) {
		if kf.Status == "open" {
			eng.openKF[kf.Obligation] = true
		}
	}
	switch cmd {
	case "list":
		var keys []string
		for k := range eng.specs.Funcs {
			keys = append(keys, k)
		}
		sort.Strings(keys)
		for _, k := range keys {
			fmt.Println(k, eng.specs.Funcs[k].Props)
		}
	case "dump":
		os.Exit(cmdDump(eng, o))
	case "check":
		os.Exit(cmdCheck(eng, o, start))
	case "sweep":
		os.Exit(cmdSweep(eng, o, start))
	default:
		fmt.Fprintln(os.Stderr, "unknown command", cmd)
		os.Exit(2)
	}
}

func (e *Engine) fnByShort(name string) *ssa.Function {
	for _, f := range e.allFns {
		if shortFuncName(f, e.modPath) == name {
			return f
		}
	}
	return nil
}

func cmdDump(eng *Engine, o options) int {
	f := eng.fnByShort(o.fn)
	if f == nil {
		fmt.Fprintln(os.Stderr, "no such function:", o.fn)
		return 2
	}
	f.WriteTo(os.Stdout)
	spec := eng.findSpec(f)
	c := eng.verifyFunction(f, spec, spec == nil)
	for _, u := range c.unsup {
		fmt.Println("UNSUPPORTED:", u)
	}
	if len(c.unsup) > 0 && !c.sweep {
		fmt.Println("function is outside the supported subset: obligations not attempted")
		return 0
	}
	for n := range c.notes {
		fmt.Println("NOTE:", n)
	}
	dir := filepath.Join(o.verif, "work", "dump")
	os.MkdirAll(dir, 0o755)
	runObligations(eng, c.obls, dir, o)
	for _, ob := range c.obls {
		fmt.Printf("%-8s %-7s %6.2fs  %s   [%s] %s\n", verdictOf(ob), ob.Result.Solver, ob.Result.Time, ob.Name, ob.File, ob.Skipped)
	}
	return 0
}

func verdictOf(ob *Obligation) string {
	if ob.Skipped != "" {
		return "stale"
	}
	if ob.Canary {
		if ob.Result.Verdict == "unsat" {
			return "VACUOUS"
		}
		return "canary-ok"
	}
	switch ob.Result.Verdict {
	case "unsat":
		return "proved"
	case "sat":
		return "REFUTED"
	}
	return "UNDECIDED(" + ob.Result.Verdict + ")"
}

func queryText(eng *Engine, ob *Obligation) string {
	var sb strings.Builder
	body := strings.Join(ob.Script.lines[:ob.Mark], "\n")
	tail := "(assert " + ob.Cond + ")\n(assert (not " + ob.Goal + "))\n"
	prel, _ := eng.preludeFor(body+"\n"+tail, ob.Kind == "lemma")
	sb.WriteString("; obligation " + ob.Name + "\n; " + ob.Pos + "\n; " + strings.ReplaceAll(ob.Text, "\n", " ") + "\n")
	sb.WriteString("(set-option :produce-models true)\n(set-logic ALL)\n")
	sb.WriteString(prel)
	sb.WriteString(body)
	sb.WriteString("\n")
	sb.WriteString(tail)
	sb.WriteString("(check-sat)\n(get-model)\n")
	return sb.String()
}

const maxQueryBytes = 4 << 20

func runObligations(eng *Engine, obls []*Obligation, dir string, o options) {
	var wg sync.WaitGroup
	sem := make(chan struct{}, o.jobs)
	for _, ob := range obls {
		if ob.Skipped != "" {
			continue
		}
		if o.only != "" && !strings.Contains(ob.Name, o.only) {
			ob.Skipped = "filtered"
			continue
		}
		if o.prop != "" && ob.Kind == "assert" && len(ob.Props) > 0 && !hasProp(ob.Props, o.prop) {
			// an assertion tagged {Cxx} belongs to that property only
			ob.Skipped = "filtered"
			continue
		}
		wg.Add(1)
		sem <- struct{}{}
		go func(ob *Obligation) {
			defer wg.Done()
			defer func() { <-sem }()
			q := queryText(eng, ob)
			if len(q) > maxQueryBytes {
				ob.Result = SolverResult{Verdict: "toolarge"}
				return
			}
			file, err := writeQuery(dir, ob.Name, q)
			if err != nil {
				ob.Result = SolverResult{Verdict: "error", Raw: err.Error()}
				return
			}
			ob.File = file
			if ob.Canary {
				r := runSolver(bgctx(), solvers[0], file, 2, o.seed, "smt.mbqi=false")
				ob.Result = r
				ob.All = []SolverResult{r}
				return
			}
			if eng.openKF[ob.Name] {
				// a listed open finding: one short attempt (it is reported as KNOWN-FINDING unless it
				// is discharged, in which case the finding has gone away and the check says so)
				r := runSolver(bgctx(), solvers[0], file, 5, o.seed)
				ob.Result, ob.All = r, []SolverResult{r}
				return
			}
			ob.Result, ob.All = raceSolvers(file, o.timeout, o.seed, o.tier == "thorough")
			if ob.Result.Verdict != "unsat" && ob.Result.Verdict != "sat" && ob.Result.Verdict != "disagree" && ob.Kind != "lemma" {
				// undecided: case split on the disjuncts of the path condition (exit paths / join
				// predecessors); the obligation is discharged when every case is
				if r, ok := splitAndSolve(eng, ob, q, dir, o); ok {
					ob.Result = r
					ob.All = append(ob.All, r)
				}
			}
			if ob.Result.Verdict != "unsat" && ob.Result.Verdict != "sat" && ob.Result.Verdict != "disagree" {
				if r, all := raceSolversAlt(file, o.timeout, o.seed); r.Verdict == "unsat" {
					ob.Result = r
					ob.All = append(ob.All, all...)
				}
			}
			// last resort before reporting: patient retries (a loaded or slower machine must not
			// turn a proof that needs a few seconds into an alarm)
			for k := 1; k <= 2 && o.patient && ob.Result.Verdict != "unsat" && ob.Result.Verdict != "sat" && ob.Result.Verdict != "disagree"; k++ {
				if r, all := raceSolvers(file, o.timeout*6, o.seed+17*k, false); r.Verdict == "unsat" || r.Verdict == "sat" {
					r.Solver += "(patient)"
					ob.Result = r
					ob.All = append(ob.All, all...)
				}
			}
		}(ob)
	}
	wg.Wait()
}

// splitAndSolve proves an obligation by cases: reach constants are defined as disjunctions of
// edge conditions (merge points); each disjunct is added as an extra assumption, recursively.
func splitAndSolve(eng *Engine, ob *Obligation, q, dir string, o options) (SolverResult, bool) {
	defs := map[string][]string{}
	for _, ln := range ob.Script.lines[:ob.Mark] {
		if strings.HasPrefix(ln, "(assert (= reach!") || strings.HasPrefix(ln, "(assert (= |reach!") {
			inner := ln[len("(assert (= ") : len(ln)-2]
			parts := splitSexprs(inner)
			if len(parts) == 2 && strings.HasPrefix(parts[1], "(or ") {
				defs[parts[0]] = splitSexprs(parts[1][4 : len(parts[1])-1])
			}
		}
	}
	total := 0.0
	leaves := 0
	budget := 96
	canSplit := func(cond string) (string, bool) {
		for _, sym := range reReach.FindAllString(cond, -1) {
			if ds, ok := defs[sym]; ok && len(ds) > 1 {
				return sym, true
			}
		}
		return "", false
	}
	var rec func(extra []string, cond string, depth int) bool
	rec = func(extra []string, cond string, depth int) bool {
		sym, splittable := canSplit(cond)
		if depth >= 6 || leaves > budget {
			splittable = false
		}
		if depth > 0 {
			body := strings.Replace(q, "(check-sat)", "(assert "+sAnd(extra...)+")\n(check-sat)", 1)
			body = strings.Replace(body, "(get-model)", "", 1)
			file, err := writeQuery(dir, fmt.Sprintf("%s.case%d", ob.Name, leaves), body)
			leaves++
			if err != nil {
				return false
			}
			var r SolverResult
			if splittable {
				// inner node: a short attempt, then go deeper (deeper cases are much cheaper)
				r = runSolver(bgctx(), solvers[0], file, 4, o.seed)
			} else {
				r, _ = raceSolvers(file, o.timeout, o.seed, false)
			}
			total += r.Time
			if r.Verdict == "unsat" {
				return true
			}
			if !splittable {
				return false
			}
		}
		if !splittable {
			return false
		}
		for _, d := range defs[sym] {
			if !rec(append(append([]string(nil), extra...), d), d, depth+1) {
				return false
			}
		}
		return true
	}
	ok := rec(nil, ob.Cond, 0)
	return SolverResult{Verdict: "unsat", Solver: fmt.Sprintf("case-split(%d)", leaves), Time: total}, ok
}

var reReach = regexp.MustCompile(`\|?reach![0-9]+\|?`)

// ---------------------------------------------------------------- check

type knownFinding struct {
	Status     string // open, fixed
	Property   string
	Obligation string
	What       string
	Commit     string
}

func loadKnownFindings(path string) []knownFinding {
	data, err := os.ReadFile(path)
	if err != nil {
		return nil
	}
	var out []knownFinding
	for _, ln := range strings.Split(string(data), "\n") {
		ln = strings.TrimSpace(ln)
		if ln == "" || strings.HasPrefix(ln, "#") {
			continue
		}
		var kf knownFinding
		switch {
		case strings.HasPrefix(ln, "open:"):
			kf.Status = "open"
			ln = strings.TrimSpace(ln[5:])
		case strings.HasPrefix(ln, "fixed:"):
			kf.Status = "fixed"
			ln = strings.TrimSpace(ln[6:])
		default:
			continue
		}
		for _, f := range strings.Fields(ln) {
			if strings.HasPrefix(f, "property=") {
				kf.Property = f[9:]
			} else if strings.HasPrefix(f, "obligation=") {
				kf.Obligation = f[11:]
			}
		}
		kf.What = strings.TrimSpace(strings.TrimPrefix(strings.TrimSpace(ln), "property="+kf.Property))
		out = append(out, kf)
	}
	return out
}

type oblReport struct {
	Name    string  `json:"name"`
	Kind    string  `json:"kind"`
	Verdict string  `json:"verdict"`
	Solver  string  `json:"solver,omitempty"`
	TimeS   float64 `json:"time_s"`
	Pos     string  `json:"pos,omitempty"`
	Text    string  `json:"text,omitempty"`
}

type fnReport struct {
	Name        string   `json:"name"`
	Pos         string   `json:"pos"`
	SSAInstrs   int      `json:"ssa_instrs"`
	Obligations int      `json:"obligations"`
	Discharged  int      `json:"discharged"`
	Notes       []string `json:"abstractions,omitempty"`
	Inlined     []string `json:"inlined_callees,omitempty"`
	Assumed     []string `json:"assumed_callee_contracts,omitempty"`
	Trusted     string   `json:"trusted,omitempty"`
	Unsupported []string `json:"outside_subset,omitempty"`
}

func hasProp(ps []string, p string) bool {
	for _, x := range ps {
		if x == p {
			return true
		}
	}
	return false
}

func cmdCheck(eng *Engine, o options, start time.Time) int {
	o.patient = true
	if o.prop == "" {
		fmt.Fprintln(os.Stderr, "check needs -prop")
		return 2
	}
	// one scratch directory per run: two runs of the same property (quick and thorough, say) must
	// not overwrite each other's query files
	workDir := filepath.Join(o.out, "work", fmt.Sprintf("%s.%s.%d", o.prop, o.tier, os.Getpid()))
	os.RemoveAll(workDir)
	os.MkdirAll(workDir, 0o755)
	// stale scratch directories of earlier runs of this property and tier
	if old, err := filepath.Glob(filepath.Join(o.out, "work", o.prop+"."+o.tier+".*")); err == nil {
		for _, d := range old {
			if d != workDir {
				if fi, err := os.Stat(d); err == nil && time.Since(fi.ModTime()) > 2*time.Hour {
					os.RemoveAll(d)
				}
			}
		}
	}
	replayDir := filepath.Join(o.out, "replays", o.prop)
	os.MkdirAll(replayDir, 0o755)

	// select functions
	var keys []string
	for k, s := range eng.specs.Funcs {
		if s.Ext {
			continue
		}
		if hasProp(s.Props, o.prop) {
			keys = append(keys, k)
		}
	}
	sort.Strings(keys)
	var all []*Obligation
	var fnReps []fnReport
	var ctxs []*FnCtx
	var stale []string
	trusted := map[string]bool{}
	if o.prop == "C16" {
		keys = nil // lock discipline: every function is swept below, whatever its tags
	}
	for _, k := range keys {
		spec := eng.specs.Funcs[k]
		fn := eng.fnByKey[k]
		if fn == nil {
			if spec.Trusted != "" {
				continue // contract on an interface method / func type: used at call sites only
			}
			stale = append(stale, k)
			continue
		}
		if spec.Trusted != "" {
			trusted[shortFuncName(fn, eng.modPath)+": "+spec.Trusted] = true
			continue
		}
		c := eng.verifyFunction(fn, spec, false)
		ctxs = append(ctxs, c)
		if len(c.unsup) > 0 {
			// outside the subset: reported as such; its obligations are not attempted
			for _, ob := range c.obls {
				ob.Skipped = "filtered"
			}
		}
		all = append(all, c.obls...)
	}
	if o.prop == "C16" {
		// lock discipline: every function of the six packages, with or without a contract
		done := map[*ssa.Function]bool{}
		for _, c := range ctxs {
			done[c.fn] = true
		}
		for _, fn := range eng.allFns {
			if done[fn] || len(fn.Blocks) == 0 || fn.Pkg == nil {
				continue
			}
			pp := strings.TrimPrefix(fn.Pkg.Pkg.Path(), eng.modPath)
			switch pp {
			case "/store", "/store/index", "/store/primary/multihash", "/store/primary/cid", "/store/freelist", "/store/filecache":
			default:
				continue
			}
			if fn.Name() == "init" || strings.HasPrefix(fn.Name(), "init#") {
				continue
			}
			spec := eng.findSpec(fn)
			if spec != nil && spec.Trusted != "" {
				continue
			}
			c := eng.verifyFunction(fn, spec, true)
			c.lockOnly = true
			var sel []*Obligation
			for _, ob := range c.obls {
				if ob.Kind == "lock" {
					sel = append(sel, ob)
				}
			}
			c.obls = sel
			ctxs = append(ctxs, c)
			all = append(all, c.obls...)
		}
	}
	// lemmas
	lemmaObls := lemmaObligations(eng, o.prop)
	all = append(all, lemmaObls...)
	// prelude consistency
	preludeObls := preludeChecks(eng, all)
	runObligations(eng, append(all, preludeObls...), workDir, o)

	kfs := loadKnownFindings(filepath.Join(o.verif, "KNOWN_FINDINGS.txt"))
	violations := 0
	known := 0
	discharged := 0
	total := 0
	engineErr := false
	var reports []oblReport
	var samples []any
	solverTime := 0.0
	solverCount := map[string]int{}
	printed := map[string]bool{}
	report := func(ob *Obligation, reason string) {
		// known finding?
		for _, kf := range kfs {
			if kf.Status == "open" && kf.Property == o.prop && kf.Obligation == ob.Name {
				if !printed[ob.Name] {
					fmt.Printf("KNOWN-FINDING: property=%s %s\n", o.prop, kf.What)
					printed[ob.Name] = true
				}
				known++
				return
			}
		}
		violations++
		path := writeReplay(eng, o, replayDir, ob, reason)
		suffix := " no-failing-input-found"
		if strings.HasPrefix(reason, "confirmed") {
			suffix = ""
		}
		fmt.Printf("VIOLATION property=%s replay=%s obligation=%s reason=%s%s\n", o.prop, path, ob.Name, strings.Fields(reason)[0], suffix)
	}
	for _, k := range stale {
		ob := &Obligation{Name: strings.Replace(strings.TrimPrefix(k, eng.modPath+"/"), "::", ".", 1) + "#stale:function-missing", Kind: "stale", Text: "contract names a function that no longer exists", Skipped: "contract-stale"}
		total++
		report(ob, "contract-stale function under contract not found: "+k)
	}
	for _, p := range preludeObls {
		if p.Result.Verdict == "unsat" {
			fmt.Printf("ENGINE-ERROR: prelude inconsistent (%s)\n", p.Name)
			engineErr = true
		}
	}
	for _, c := range ctxs {
		fr := fnReport{Name: c.funcName, Pos: eng.posOf(c.fn.Pos())}
		for _, b := range c.fn.Blocks {
			fr.SSAInstrs += len(b.Instrs)
		}
		for n := range c.notes {
			fr.Notes = append(fr.Notes, n)
		}
		sort.Strings(fr.Notes)
		for n := range c.inlined {
			fr.Inlined = append(fr.Inlined, n)
		}
		sort.Strings(fr.Inlined)
		for n := range c.assumed {
			fr.Assumed = append(fr.Assumed, n)
			trusted["assumed contract: "+n] = true
		}
		sort.Strings(fr.Assumed)
		fr.Unsupported = c.unsup
		if len(c.unsup) > 0 && !c.lockOnly {
			// outside the subset: nothing about this function is decided
			ob := &Obligation{Name: c.funcName + "#subset", Kind: "subset", Text: strings.Join(c.unsup, "; ")}
			total++
			report(ob, "outside-subset "+strings.Join(c.unsup, "; "))
		}
		for _, ob := range c.obls {
			if ob.Skipped == "filtered" {
				continue
			}
			rep := oblReport{Name: ob.Name, Kind: ob.Kind, Solver: ob.Result.Solver, TimeS: ob.Result.Time, Pos: ob.Pos, Text: ob.Text}
			for _, a := range ob.All {
				solverTime += a.Time
			}
			if ob.Canary {
				if ob.Result.Verdict == "unsat" && ob.BlockCanary && !ob.HasContractObl {
					// dead under the contracts in force, and nothing the contract states is inside:
					// reported, not an alarm (typically a diagnostic branch for data the contract excludes)
					rep.Verdict = "block-unreachable-under-contract"
					fmt.Printf("NOTE: %s at %s is unreachable under the contracts in force (no contract obligation inside)\n", ob.Name, ob.Pos)
				} else if ob.Result.Verdict == "unsat" {
					rep.Verdict = "vacuous"
					total++
					fr.Obligations++
					report(ob, "vacuous: a return of "+c.funcName+" is unreachable under the contract (contradictory precondition, invariant or assumed contract)")
				} else {
					rep.Verdict = "canary-ok"
				}
				reports = append(reports, rep)
				continue
			}
			total++
			fr.Obligations++
			switch {
			case ob.Skipped != "":
				rep.Verdict = "stale"
				report(ob, ob.Skipped)
			case ob.Result.Verdict == "unsat":
				rep.Verdict = "discharged"
				discharged++
				fr.Discharged++
				solverCount[ob.Result.Solver]++
				if len(samples) < 6 && ob.Kind != "safety" {
					samples = append(samples, map[string]string{"obligation": ob.Name, "clause": ob.Text, "goal": truncate(ob.Goal, 400), "solver": ob.Result.Solver})
				}
			case ob.Result.Verdict == "disagree":
				rep.Verdict = "solver-disagreement"
				fmt.Printf("ENGINE-ERROR: solvers disagree on %s\n", ob.Name)
				engineErr = true
			case ob.Result.Verdict == "sat":
				rep.Verdict = "refuted"
				reason := "refuted " + ob.Result.Solver + " returned a model"
				if ok, attempted, txt := tryReplay(eng, o, c, ob, replayDir); attempted {
					ob.ReplayNote = txt
					if ok {
						reason = "confirmed-by-replay the model's inputs falsify the clause on the real code"
						rep.Verdict = "refuted-and-replayed"
					}
				}
				report(ob, reason)
			default:
				rep.Verdict = "undischarged:" + ob.Result.Verdict
				reason := "undischarged all solvers: " + ob.Result.Verdict
				if ok, attempted, txt := tryReplay(eng, o, c, ob, replayDir); attempted {
					ob.ReplayNote = txt
					if ok {
						reason = "confirmed-by-replay a candidate input falsifies the clause on the real code"
						rep.Verdict = "undischarged-and-replayed"
					}
				}
				report(ob, reason)
			}
			reports = append(reports, rep)
		}
		fnReps = append(fnReps, fr)
	}
	for _, ob := range lemmaObls {
		total++
		rep := oblReport{Name: ob.Name, Kind: ob.Kind, Solver: ob.Result.Solver, TimeS: ob.Result.Time, Pos: ob.Pos, Text: ob.Text}
		for _, a := range ob.All {
			solverTime += a.Time
		}
		switch ob.Result.Verdict {
		case "unsat":
			rep.Verdict = "discharged"
			discharged++
			solverCount[ob.Result.Solver]++
			if len(samples) < 8 {
				samples = append(samples, map[string]string{"obligation": ob.Name, "clause": ob.Text, "solver": ob.Result.Solver})
			}
		case "sat":
			rep.Verdict = "refuted"
			report(ob, "refuted lemma has a counter-model")
		case "disagree":
			engineErr = true
			fmt.Printf("ENGINE-ERROR: solvers disagree on %s\n", ob.Name)
		default:
			rep.Verdict = "undischarged:" + ob.Result.Verdict
			report(ob, "undischarged lemma: "+ob.Result.Verdict)
		}
		reports = append(reports, rep)
	}
	if total == 0 {
		fmt.Printf("ENGINE-ERROR: no obligations generated for %s\n", o.prop)
		engineErr = true
	}
	var tb []string
	for t := range trusted {
		tb = append(tb, t)
	}
	sort.Strings(tb)
	tb = append([]string{
		"gsv VC generator (this tool) and golang.org/x/tools/go/ssa v0.50.0",
		"SMT solvers z3 5.1.0, z3 4.8.12, cvc5 1.0.3",
		"preludes under /verif/prelude (axioms; consistency checked by solver on every run)",
	}, tb...)
	if len(samples) == 0 {
		samples = append(samples, "none discharged")
	}
	ev := map[string]any{
		"property_id": o.prop,
		"tier":        o.tier,
		"seed":        o.seed,
		"level":       "proof",
		"wall_s":      time.Since(start).Seconds(),
		"violations":  violations,
		"coverage": map[string]any{
			"obligations":              total - known,
			"discharged":               discharged,
			"known_finding_failing":    known,
			"checker_cmd":              fmt.Sprintf("./check %s %s", o.prop, o.tier),
			"trusted_base":             tb,
			"functions_under_contract": fnReps,
			"obligation_results":       reports,
			"solver_time_s":            solverTime,
			"discharged_by_solver":     solverCount,
			"samples":                  samples,
			"timeout_s":                o.timeout,
			"integer_semantics":        "mathematical integers with exact two's-complement wrap-around per Go type",
		},
		"assumptions": assumptionsFor(o.prop, ctxs, tb),
	}
	os.MkdirAll(filepath.Join(o.out, "evidence"), 0o755)
	data, _ := json.MarshalIndent(ev, "", " ")
	os.WriteFile(filepath.Join(o.out, "evidence", o.prop+".json"), data, 0o644)
	fmt.Printf("gsv: property %s: %d obligations, %d discharged, %d known-finding, %d violations, %.1fs\n", o.prop, total, discharged, known, violations, time.Since(start).Seconds())
	if !o.keep && violations == 0 && !engineErr {
		os.RemoveAll(workDir)
	}
	if engineErr {
		return 2
	}
	if violations > 0 {
		return 1
	}
	return 0
}

func truncate(s string, n int) string {
	if len(s) > n {
		return s[:n] + "…"
	}
	return s
}

func assumptionsFor(prop string, ctxs []*FnCtx, tb []string) []string {
	out := []string{
		"sequential execution inside one call; goroutines, channel operations and select are abstracted (see per-function abstractions)",
		"termination is not verified (partial correctness)",
		"nil dereference of struct pointers is checked only in functions marked nopanic; receivers are assumed non-nil",
		"floating point is uninterpreted",
	}
	out = append(out, tb...)
	return out
}

func writeReplay(eng *Engine, o options, dir string, ob *Obligation, reason string) string {
	fn := strings.Map(func(r rune) rune {
		if r >= 'a' && r <= 'z' || r >= 'A' && r <= 'Z' || r >= '0' && r <= '9' || r == '.' || r == '-' || r == '_' {
			return r
		}
		return '_'
	}, ob.Name)
	p := filepath.Join(dir, fn+".txt")
	var sb strings.Builder
	sb.WriteString("property: " + o.prop + "\nobligation: " + ob.Name + "\nkind: " + ob.Kind + "\nsource: " + ob.Pos + "\nclause: " + ob.Text + "\nreason: " + reason + "\n")
	if ob.File != "" {
		// keep the query next to the replay file
		data, err := os.ReadFile(ob.File)
		if err == nil {
			qp := filepath.Join(dir, fn+".smt2")
			os.WriteFile(qp, data, 0o644)
			sb.WriteString("smt_query: " + qp + "\n")
		}
	}
	if ob.ReplayNote != "" {
		sb.WriteString(ob.ReplayNote)
	}
	for _, a := range ob.All {
		sb.WriteString(fmt.Sprintf("--- solver %s: %s (%.2fs)\n", a.Solver, a.Verdict, a.Time))
		sb.WriteString(truncate(a.Raw, 6000) + "\n")
	}
	os.WriteFile(p, []byte(sb.String()), 0o644)
	return p
}

// preludeChecks: each prelude used must be satisfiable on its own (not unsat).
func preludeChecks(eng *Engine, obls []*Obligation) []*Obligation {
	used := map[string]bool{}
	for _, ob := range obls {
		if ob.Script == nil {
			continue
		}
		body := strings.Join(ob.Script.lines[:ob.Mark], "\n") + ob.Goal + ob.Cond
		_, names := eng.preludeFor(body)
		for _, n := range names {
			used[n] = true
		}
	}
	var out []*Obligation
	var names []string
	for n := range used {
		names = append(names, n)
	}
	sort.Strings(names)
	for _, n := range names {
		p := eng.preludes[n]
		if p == nil || len(p.Symbols) == 0 {
			continue
		}
		sc := newScript()
		sc.comment("prelude check: " + strings.Join(p.Symbols, " "))
		ob := &Obligation{Name: "prelude." + n + "#consistent", Kind: "prelude", Mark: len(sc.lines), Cond: "true", Goal: "false", Script: sc, Canary: true, Text: "prelude " + n + " must be satisfiable"}
		out = append(out, ob)
	}
	return out
}

func cmdSweep(eng *Engine, o options, start time.Time) int {
	dir := filepath.Join(o.verif, "work", "sweep")
	os.RemoveAll(dir)
	os.MkdirAll(dir, 0o755)
	for _, f := range eng.allFns {
		if o.fn != "" && shortFuncName(f, eng.modPath) != o.fn {
			continue
		}
		if len(f.Blocks) == 0 || strings.HasSuffix(f.Name(), "init") {
			continue
		}
		spec := eng.findSpec(f)
		c := eng.verifyFunction(f, spec, true)
		var sel []*Obligation
		for _, ob := range c.obls {
			if ob.Kind == "safety" || ob.Kind == "lock" {
				sel = append(sel, ob)
			}
		}
		runObligations(eng, sel, dir, o)
		for _, ob := range sel {
			if ob.Result.Verdict != "unsat" {
				fmt.Printf("%-10s %-50s %s\n", verdictOf(ob), ob.Name, ob.Pos)
			}
		}
		if len(c.unsup) > 0 {
			fmt.Printf("subset     %-50s %s\n", c.funcName, strings.Join(c.unsup, "; "))
		}
	}
	return 0
}
