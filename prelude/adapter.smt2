; requires: bytes
; Opaque observers of go-cid / go-block-format values used by the blockstore adapter contracts.
(declare-fun cidhash (Int) Bytes)        ; multihash bytes of a CID (identified by its string id)
(declare-fun cidprefix (Int) Int)        ; code of the (version, codec, mh type, mh length) prefix of a CID
(declare-fun cidsum (Int Bytes) Int)     ; CID obtained by hashing data under a prefix
(declare-fun blockdata (Int) Bytes)      ; RawData of a block object
(declare-fun blockcid (Int) Int)         ; CID of a block object
