package store_test

// F10 (property C03): Store.Close flushed (closed) the index before flushing the primary. A
// process death between the two steps left an index on disk that names primary records that
// were never written: a key present at the last completed flush then reads as absent.
//   cd /repo && echo '{"Replace":{"/repo/store/f10_test.go":"/verif/findings/f10_test.go"}}' > /tmp/ov.json && go test -overlay /tmp/ov.json -vet=off -count=1 -run TestF10 ./store/

import (
	"context"
	"io"
	"os"
	"path/filepath"
	"testing"

	"github.com/ipld/go-storethehash/store"
	"github.com/ipld/go-storethehash/store/primary"
	"github.com/multiformats/go-multihash"
)

type snapshotOnClose struct {
	primary.PrimaryStorage
	src, dst string
	t        *testing.T
}

func copyDir(t *testing.T, src, dst string) {
	ents, err := os.ReadDir(src)
	if err != nil {
		t.Fatal(err)
	}
	for _, e := range ents {
		in, err := os.Open(filepath.Join(src, e.Name()))
		if err != nil {
			t.Fatal(err)
		}
		out, err := os.Create(filepath.Join(dst, e.Name()))
		if err != nil {
			t.Fatal(err)
		}
		if _, err = io.Copy(out, in); err != nil {
			t.Fatal(err)
		}
		in.Close()
		out.Close()
	}
}

// Close is called by Store.Close right after the index was closed (= flushed): this is the
// disk image a process death at that instant would leave behind.
func (p *snapshotOnClose) Close() error {
	copyDir(p.t, p.src, p.dst)
	return p.PrimaryStorage.Close()
}

func TestF10CrashInsideClose(t *testing.T) {
	dir, crashed := t.TempDir(), t.TempDir()
	open := func(d string) *store.Store {
		s, err := store.OpenStore(context.Background(), store.MultihashPrimary, filepath.Join(d, "data"), filepath.Join(d, "index"), false, store.GCInterval(0))
		if err != nil {
			t.Fatal(err)
		}
		return s
	}
	key, _ := multihash.Sum([]byte("key"), multihash.SHA2_256, -1)
	s := open(dir)
	if err := s.Put(key, []byte("v1")); err != nil {
		t.Fatal(err)
	}
	if err := s.Flush(); err != nil {
		t.Fatal(err)
	}
	if err := s.Put(key, []byte("v2")); err != nil {
		t.Fatal(err)
	}
	s.Index().Primary = &snapshotOnClose{s.Index().Primary, dir, crashed, t}
	if err := s.Close(); err != nil {
		t.Fatal(err)
	}
	os.Remove(filepath.Join(crashed, "index.buckets")) // an unclean shutdown has no usable snapshot... (kept if absent)
	r := open(crashed)
	defer r.Close()
	v, found, err := r.Get(key)
	if err != nil {
		t.Fatal(err)
	}
	if !found {
		t.Fatal("key present at the last completed flush reads as absent after a crash inside Close")
	}
	if string(v) != "v1" && string(v) != "v2" {
		t.Fatalf("unexpected value %q", v)
	}
}
