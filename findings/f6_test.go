package store

// F6 (properties C04, C13; open): a primary GC cycle that runs while a superseded record is
// still in the primary's write pool (not flushed yet) hands the freelist to deleteRecords, which
// cannot mark a record that is not on disk, logs an error and drops the entry; the hand-over
// file is then removed. The superseded record is later flushed looking live, and when its file
// becomes low-use GC relocates it and re-points the index to it: the key returns its OLD value.
//   cd /repo && echo '{"Replace":{"/repo/store/f6_test.go":"/verif/findings/f6_test.go"}}' > /tmp/ov.json && go test -overlay /tmp/ov.json -vet=off -count=1 -run TestF6 ./store/

import (
	"bytes"
	"context"
	"fmt"
	"path/filepath"
	"testing"
	"time"

	mhprimary "github.com/ipld/go-storethehash/store/primary/multihash"
	"github.com/multiformats/go-multihash"
)

func TestF6GCBeforeFlushResurrectsOldValue(t *testing.T) {
	dir := t.TempDir()
	s, err := OpenStore(context.Background(), MultihashPrimary, filepath.Join(dir, "data"), filepath.Join(dir, "index"), false,
		GCInterval(time.Hour), PrimaryFileSize(100))
	if err != nil {
		t.Fatal(err)
	}
	defer s.Close()
	mp := s.Primary().(*mhprimary.MultihashPrimary)
	k, _ := multihash.Sum([]byte("key"), multihash.SHA2_256, -1)
	if err = s.Put(k, []byte("old-value")); err != nil {
		t.Fatal(err)
	}
	if err = s.Put(k, []byte("new-value")); err != nil {
		t.Fatal(err)
	}
	// GC runs before anything was flushed (threshold 101: no relocation in this cycle)
	if _, err = mp.GC(context.Background(), 101); err != nil {
		t.Logf("gc: %v", err)
	}
	if err = s.Flush(); err != nil {
		t.Fatal(err)
	}
	// fill up so that the first primary file is no longer the current one
	for i := 0; i < 4; i++ {
		kk, _ := multihash.Sum([]byte(fmt.Sprintf("other-%d", i)), multihash.SHA2_256, -1)
		if err = s.Put(kk, []byte("x")); err != nil {
			t.Fatal(err)
		}
	}
	if err = s.Flush(); err != nil {
		t.Fatal(err)
	}
	// low-use threshold 0: each cycle relocates the last records of every non-current file
	for i := 0; i < 6; i++ {
		if _, err = mp.GC(context.Background(), 0); err != nil {
			t.Logf("gc: %v", err)
		}
		if err = s.Flush(); err != nil {
			t.Fatal(err)
		}
		v, found, err := s.Get(k)
		if err != nil || !found || !bytes.Equal(v, []byte("new-value")) {
			t.Fatalf("after GC cycle %d: found=%v value=%q err=%v, want new-value", i, found, v, err)
		}
	}
	v, found, err := s.Get(k)
	if err != nil || !found || !bytes.Equal(v, []byte("new-value")) {
		t.Fatalf("after GC: found=%v value=%q err=%v, want new-value", found, v, err)
	}
}
