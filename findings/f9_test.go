package store_test

// F9 (property C03): scanIndexFile (crash recovery of an index file) treated a torn size prefix
// (1-3 bytes of the next record's 4-byte length at the end of the file) as a clean end of file:
// os.File.ReadAt reports a short read as io.EOF, never io.ErrUnexpectedEOF, so the truncation
// branch was dead. The torn bytes stayed, new records were appended after them, and the next
// recovery scan misparsed everything from there on.
//   cd /repo && echo '{"Replace":{"/repo/store/f9_test.go":"/verif/findings/f9_test.go"}}' > /tmp/ov.json && go test -overlay /tmp/ov.json -vet=off -count=1 -run TestF9 ./store/

import (
	"bytes"
	"context"
	"fmt"
	"os"
	"path/filepath"
	"testing"

	"github.com/ipld/go-storethehash/store"
	"github.com/multiformats/go-multihash"
)

func TestF9TornSizePrefix(t *testing.T) {
	dir := t.TempDir()
	dataPath, indexPath := filepath.Join(dir, "data"), filepath.Join(dir, "index")
	open := func() *store.Store {
		s, err := store.OpenStore(context.Background(), store.MultihashPrimary, dataPath, indexPath, false, store.GCInterval(0))
		if err != nil {
			t.Fatal(err)
		}
		return s
	}
	key := func(i int) []byte {
		k, _ := multihash.Sum([]byte(fmt.Sprintf("key-%d", i)), multihash.SHA2_256, -1)
		return k
	}
	s := open()
	for i := 0; i < 3; i++ {
		if err := s.Put(key(i), []byte(fmt.Sprintf("value-%d", i))); err != nil {
			t.Fatal(err)
		}
	}
	if err := s.Close(); err != nil {
		t.Fatal(err)
	}
	// crash while the next record list was being appended: only 2 bytes of its size prefix
	// reached the file, and there is no bucket snapshot
	os.Remove(indexPath + ".buckets")
	fi, _ := os.Stat(indexPath + ".0")
	before := fi.Size()
	f, err := os.OpenFile(indexPath+".0", os.O_WRONLY|os.O_APPEND, 0o644)
	if err != nil {
		t.Fatal(err)
	}
	f.Write([]byte{0x30, 0x00})
	f.Close()

	s = open() // recovery scan
	fi, _ = os.Stat(indexPath + ".0")
	if fi.Size() != before {
		t.Errorf("after recovery the index file is %d bytes, want %d (torn size prefix not cut off)", fi.Size(), before)
	}
	for i := 3; i < 6; i++ {
		if err := s.Put(key(i), []byte(fmt.Sprintf("value-%d", i))); err != nil {
			t.Fatal(err)
		}
	}
	if err := s.Close(); err != nil {
		t.Fatal(err)
	}
	os.Remove(indexPath + ".buckets") // second crash: recovery scans again
	s = open()
	defer s.Close()
	for i := 0; i < 6; i++ {
		v, found, err := s.Get(key(i))
		if err != nil || !found || !bytes.Equal(v, []byte(fmt.Sprintf("value-%d", i))) {
			t.Errorf("key %d after second recovery: found=%v value=%q err=%v", i, found, v, err)
		}
	}
}
