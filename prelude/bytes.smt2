; Bytes: abstract byte strings with longest-common-prefix based ordering
(declare-sort Bytes 0)
(declare-fun blen (Bytes) Int)
(declare-fun bat (Bytes Int) Int)
(declare-fun bsub (Bytes Int Int) Bytes)
(declare-fun bcat (Bytes Bytes) Bytes)
(declare-fun lcp (Bytes Bytes) Int)
(declare-fun mkbytes ((Array Int Int) Int Int) Bytes)
(declare-fun bempty () Bytes)
(assert (= (blen bempty) 0))
(assert (forall ((b Bytes)) (! (>= (blen b) 0) :pattern ((blen b)))))
(assert (forall ((b Bytes) (i Int)) (! (and (<= 0 (bat b i)) (< (bat b i) 256)) :pattern ((bat b i)))))
; view of a slice
(assert (forall ((a (Array Int Int)) (o Int) (l Int)) (! (= (blen (mkbytes a o l)) (ite (>= l 0) l 0)) :pattern ((mkbytes a o l)))))
(assert (forall ((a (Array Int Int)) (o Int) (l Int) (i Int)) (! (=> (and (<= 0 i) (< i l)) (= (bat (mkbytes a o l) i) (select a (idx o i)))) :pattern ((bat (mkbytes a o l) i)))))
; sub-range
(assert (forall ((b Bytes) (lo Int) (hi Int)) (! (=> (and (<= 0 lo) (<= lo hi) (<= hi (blen b))) (= (blen (bsub b lo hi)) (- hi lo))) :pattern ((bsub b lo hi)))))
(assert (forall ((b Bytes) (lo Int) (hi Int) (i Int)) (! (=> (and (<= 0 lo) (<= lo hi) (<= hi (blen b)) (<= 0 i) (< i (- hi lo))) (= (bat (bsub b lo hi) i) (bat b (+ lo i)))) :pattern ((bat (bsub b lo hi) i)))))
; concatenation
(assert (forall ((a Bytes) (b Bytes)) (! (= (blen (bcat a b)) (+ (blen a) (blen b))) :pattern ((bcat a b)))))
(assert (forall ((a Bytes) (b Bytes) (i Int)) (! (=> (and (<= 0 i) (< i (+ (blen a) (blen b)))) (= (bat (bcat a b) i) (ite (< i (blen a)) (bat a i) (bat b (- i (blen a)))))) :pattern ((bat (bcat a b) i)))))
; longest common prefix
(assert (forall ((a Bytes) (b Bytes)) (! (and (<= 0 (lcp a b)) (<= (lcp a b) (blen a)) (<= (lcp a b) (blen b))) :pattern ((lcp a b)))))
(assert (forall ((a Bytes) (b Bytes)) (! (= (lcp a b) (lcp b a)) :pattern ((lcp a b)))))
(assert (forall ((a Bytes) (b Bytes) (i Int)) (! (=> (and (<= 0 i) (< i (lcp a b))) (= (bat a i) (bat b i))) :pattern ((lcp a b) (bat a i)) :pattern ((lcp a b) (bat b i)))))
(assert (forall ((a Bytes) (b Bytes)) (! (=> (and (< (lcp a b) (blen a)) (< (lcp a b) (blen b))) (not (= (bat a (lcp a b)) (bat b (lcp a b))))) :pattern ((lcp a b)))))
; extensionality
(assert (forall ((a Bytes) (b Bytes)) (! (=> (and (= (blen a) (blen b)) (= (lcp a b) (blen a))) (= a b)) :pattern ((lcp a b)))))
(assert (forall ((a Bytes)) (! (= (lcp a a) (blen a)) :pattern ((lcp a a)))))
; isprefix and blt (lexicographic order) are function symbols with defining axioms (not macros)
; so that derived lemmas can use them as triggers
(declare-fun isprefix (Bytes Bytes) Bool)
(assert (forall ((p Bytes) (s Bytes)) (! (= (isprefix p s) (= (lcp p s) (blen p))) :pattern ((isprefix p s)))))
(declare-fun blt (Bytes Bytes) Bool)
(assert (forall ((a Bytes) (b Bytes)) (! (= (blt a b) (or (and (= (lcp a b) (blen a)) (< (blen a) (blen b))) (and (< (lcp a b) (blen a)) (< (lcp a b) (blen b)) (< (bat a (lcp a b)) (bat b (lcp a b)))))) :pattern ((blt a b)))))
(define-fun bcmp ((a Bytes) (b Bytes)) Int (ite (= a b) 0 (ite (blt a b) (- 1) 1)))
